"""Translator for C12: extracts the table-shaped / structural parts of the mechanism
from the working tree and writes lean/FordModel/Generated/C12.lean.

  symbolReplacements  dict literal inside NameSelector.get_name                  (sourceform.py)
  fortranFileOrder    order of the `for x in new_file.<attr>` loops              (fortran_project.py: _fortran_file)
  containersOrder     the CONTAINERS dict of Project.correlate                    (fortran_project.py)
  unitChainOrder      chain(sfile.modules, ...) of the gather loop in correlate   (fortran_project.py)
  pageListOrder       entity_list_page_map of Documentation.__init__ (+allfiles)  (output.py)
  fileIterSorted      is the iterable of the "Parsing files" loop wrapped in sorted()?   (variant switch)
  usesIterSorted      is `obj.uses` of the use_list macro iterated through a sort filter? (variant switch)
  writeoutSteps       kinds of the top-level statements of Documentation.writeout (first must remove out_dir)
  outDirs             the directory list created by writeout
  nodeIterSites       every loop over a node collection in graphs.py with "is it sorted(...)"
  serialGraphs / parallelGraphs   (collection, graph attributes) pairs of the two branches of output_graphs

A construct that cannot be found raises (= tie broken), it is never silently skipped.
"""
from __future__ import annotations

import ast
from pathlib import Path

from harness import common


def _src(rel):
    return (common.REPO / rel).read_text()


def _find(tree, kind, name):
    for n in ast.walk(tree):
        if isinstance(n, kind) and getattr(n, "name", None) == name:
            return n
    raise LookupError(f"{kind.__name__} {name} not found")


def _method(tree, cls, fn):
    c = _find(tree, ast.ClassDef, cls)
    for n in c.body:
        if isinstance(n, ast.FunctionDef) and n.name == fn:
            return n
    raise LookupError(f"{cls}.{fn} not found")


def lean_str(s: str) -> str:
    return '"' + s.replace("\\", "\\\\").replace('"', '\\"') + '".toList'


def lean_list(xs) -> str:
    return "[" + ", ".join(xs) + "]"


def is_sorted_call(node) -> bool:
    return isinstance(node, ast.Call) and isinstance(node.func, ast.Name) and node.func.id == "sorted"


def strip_wrappers(node):
    """enumerate(X) / (bar := ProgressBar("..", X)) -> X"""
    while True:
        if isinstance(node, ast.NamedExpr):
            node = node.value
        elif isinstance(node, ast.Call) and isinstance(node.func, ast.Name) and node.func.id == "enumerate":
            node = node.args[0]
        elif isinstance(node, ast.Call) and isinstance(node.func, ast.Name) and node.func.id == "ProgressBar":
            node = node.args[1]
        else:
            return node


# ---------------------------------------------------------------- extractors


def symbol_replacements():
    fn = _method(ast.parse(_src("ford/sourceform.py")), "NameSelector", "get_name")
    for n in ast.walk(fn):
        if isinstance(n, ast.For) and isinstance(n.iter, ast.Call) and isinstance(n.iter.func, ast.Attribute) \
                and n.iter.func.attr == "items" and isinstance(n.iter.func.value, ast.Dict):
            d = n.iter.func.value
            out = [(ast.literal_eval(k), ast.literal_eval(v)) for k, v in zip(d.keys, d.values)]
            if not out or any(len(k) != 1 for k, _ in out):
                raise LookupError("symbol table is not single-character keyed")
            return out
    raise LookupError("symbol replacement dict not found in NameSelector.get_name")


def numbering_shape():
    """Facts about get_name the model relies on: memo on `item in self._items`, counter keyed by
    (get_dir(), <key>), suffix only when num > 1, lower() applied to the output name.
    Returns True when <key> is the lower-cased name (repaired, commit 8dec555), False when it is
    the name as written (asIs)."""
    fn = _method(ast.parse(_src("ford/sourceform.py")), "NameSelector", "get_name")
    src = ast.unparse(fn)
    need = ["num = 1", "name = item.name.lower()", "if num > 1", "name + '~' + str(num)",
            "if item in self._items", "'__unnamed__'"]
    missing = [n for n in need if n not in src]
    if missing:
        raise LookupError(f"NameSelector.get_name no longer has the modelled shape: missing {missing}")
    as_is = "self._counts[item.get_dir()][item.name] + 1" in src and "self._counts[item.get_dir()][item.name] = num" in src
    lower_key = ("self._counts[item.get_dir()][name] + 1" in src and "self._counts[item.get_dir()][name] = num" in src
                 and src.index("name = item.name.lower()") < src.index("self._counts[item.get_dir()][name] + 1")
                 # the symbol replacements must come after the count, the key is the plain lower-cased name
                 and src.index("self._counts[item.get_dir()][name] = num") < src.index("name.replace("))
    if as_is == lower_key:
        raise LookupError("NameSelector.get_name: the key of the counter is neither item.name nor item.name.lower()")
    return lower_key


def fortran_file_order():
    fn = _method(ast.parse(_src("ford/fortran_project.py")), "Project", "_fortran_file")
    out = []
    for n in fn.body:
        if isinstance(n, ast.For) and isinstance(n.iter, ast.Attribute) and isinstance(n.iter.value, ast.Name) \
                and n.iter.value.id == "new_file":
            out.append(n.iter.attr)
    if not out:
        raise LookupError("_fortran_file loops not found")
    return out


def correlate_tables():
    fn = _method(ast.parse(_src("ford/fortran_project.py")), "Project", "correlate")
    containers = None
    chain_order = None
    for n in ast.walk(fn):
        if isinstance(n, ast.Assign) and isinstance(n.targets[0], ast.Name) and n.targets[0].id == "CONTAINERS":
            containers = [(ast.literal_eval(k), ast.literal_eval(v)) for k, v in zip(n.value.keys, n.value.values)]
        if isinstance(n, ast.For) and isinstance(n.target, ast.Name) and n.target.id == "code_unit":
            it = n.iter
            if isinstance(it, ast.Call) and getattr(it.func, "id", None) == "chain":
                chain_order = [a.attr for a in it.args]
    if not containers or not chain_order:
        raise LookupError("CONTAINERS / code-unit chain not found in Project.correlate")
    return containers, chain_order


def file_iter_sorted():
    fn = _method(ast.parse(_src("ford/fortran_project.py")), "Project", "__init__")
    for n in ast.walk(fn):
        if isinstance(n, ast.For) and isinstance(n.target, ast.Name) and n.target.id == "filename":
            it = strip_wrappers(n.iter)
            src = ast.unparse(it)
            if "find_all_files" not in src:
                raise LookupError(f"Parsing-files loop iterates {src}")
            return is_sorted_call(it), src
    raise LookupError("Parsing-files loop not found in Project.__init__")


def find_all_files_returns_set():
    fn = _find(ast.parse(_src("ford/fortran_project.py")), ast.FunctionDef, "find_all_files")
    rets = [n for n in ast.walk(fn) if isinstance(n, ast.Return)]
    if len(rets) != 1:
        raise LookupError("find_all_files: expected one return")
    return ast.unparse(rets[0].value)


def page_list_order():
    fn = _method(ast.parse(_src("ford/output.py")), "Documentation", "__init__")
    order = None
    extra = None
    for n in ast.walk(fn):
        if isinstance(n, ast.AnnAssign) and getattr(n.target, "id", None) == "entity_list_page_map":
            order = [(e.elts[0].attr, e.elts[1].id) for e in n.value.elts]
        if isinstance(n, ast.Call) and isinstance(n.func, ast.Attribute) and n.func.attr == "append" \
                and getattr(n.func.value, "id", None) == "entity_list_page_map":
            t = n.args[0]
            extra = (t.elts[0].attr, t.elts[1].id)
    if not order or not extra:
        raise LookupError("entity_list_page_map not found in Documentation.__init__")
    return order + [extra]


def writeout_steps():
    fn = _method(ast.parse(_src("ford/output.py")), "Documentation", "writeout")
    steps = []
    dirs = None
    for st in fn.body:
        src = ast.unparse(st)
        if isinstance(st, ast.Expr) and isinstance(st.value, ast.Constant):
            continue  # docstring
        if isinstance(st, ast.AnnAssign) or isinstance(st, ast.Assign):
            steps.append("bind")
        elif isinstance(st, ast.If) and "is_file()" in ast.unparse(st.test) and "unlink" in src and "rmtree(out_dir" in src:
            steps.append("removeOut")
        elif isinstance(st, ast.Expr) and src.startswith("shutil.rmtree(out_dir"):
            steps.append("removeOut")
        elif "out_dir.unlink" in src and "rmtree(out_dir" not in src:
            steps.append("unlinkIfFile")  # removes a plain file only, a directory stays
        elif isinstance(st, ast.Try) and "out_dir.mkdir" in src:
            steps.append("mkdirOut")
        elif isinstance(st, ast.For) and isinstance(st.iter, ast.List) and ".mkdir" in src:
            got = [ast.literal_eval(e) for e in st.iter.elts]
            if dirs is None:
                dirs = got
            steps.append("mkdirSub")
        else:
            steps.append("write")
    if dirs is None:
        raise LookupError("writeout: directory list not found")
    if "removeOut" not in steps:
        # still a table (the theorem about it will fail), not a translator error
        pass
    return steps, dirs


GRAPH_SITES = [
    # (class, function, iterated expression with sorted()/list() peeled off)
    ("FortranGraph", "__init__", "=root"),
    ("FortranGraph", "__init__", "self.root"),
    ("FortranGraph", "add_to_graph", "nodes"),
    ("FortranGraph", "add_nodes", "nodes"),
    ("ModuleGraph", "add_node", "node.uses"),
    ("UsesGraph", "add_node", "node.uses"),
    ("UsedByGraph", "add_node", "getattr(node, 'used_by', [])"),
    ("UsedByGraph", "add_node", "getattr(node, 'children', [])"),
    ("FileGraph", "add_node", "node.efferent"),
    ("EfferentGraph", "add_node", "node.efferent"),
    ("AfferentGraph", "add_node", "node.afferent"),
    ("CallGraph", "add_node", "node.calls"),
    ("CallGraph", "add_node", "getattr(node, 'interfaces', [])"),
    ("CallsGraph", "add_node", "node.calls"),
    ("CallsGraph", "add_node", "getattr(node, 'interfaces', [])"),
    ("CalledByGraph", "add_node", "node.called_by"),
    ("CalledByGraph", "add_node", "getattr(node, 'interfaced_by', [])"),
    ("GraphManager", "graph_all", "self.graph_objs"),
    ("GraphManager", "graph_all", "=self.modules"),
    ("GraphManager", "graph_all", "=self.procedures | self.internal_procedures | self.bound_procedures"),
    ("GraphManager", "graph_all", "self.programs"),
    ("GraphManager", "graph_all", "self.procedures"),
]


def peel(node):
    """sorted(list(X)) / sorted(X) / list(X) -> (X, was_sorted)"""
    was_sorted = False
    while isinstance(node, ast.Call) and isinstance(node.func, ast.Name) and node.func.id in ("sorted", "list") \
            and len(node.args) == 1:
        if node.func.id == "sorted":
            was_sorted = True
        node = node.args[0]
    return node, was_sorted


def node_iter_sites():
    tree = ast.parse(_src("ford/graphs.py"))
    out = []
    for cls, fn, expr in GRAPH_SITES:
        f = _method(tree, cls, fn)
        want_assign = expr.startswith("=")  # "=X": the site is an assignment `v = sorted(list(X))`
        text = expr.lstrip("=")
        found = None
        for n in ast.walk(f):
            if want_assign and isinstance(n, ast.Assign):
                cand = n.value
            elif not want_assign and isinstance(n, ast.For):
                cand = strip_wrappers(n.iter)
            else:
                continue
            inner, was_sorted = peel(cand)
            if ast.unparse(inner) == text:
                # several loops over the same expression in one function: all must be sorted
                found = was_sorted if found is None else (found and was_sorted)
        if found is None:
            raise LookupError(f"graphs.py: iteration site {cls}.{fn} over {text} not found")
        out.append((f"{cls}.{fn}: {text}", found))
    return out


def output_graphs_tables():
    fn = _method(ast.parse(_src("ford/graphs.py")), "GraphManager", "output_graphs")
    branch = None
    for n in ast.walk(fn):
        if isinstance(n, ast.If) and ast.unparse(n.test) == "njobs == 0":
            branch = n
    if branch is None:
        raise LookupError("output_graphs: `if njobs == 0` not found")
    serial = []
    for st in branch.body:
        if not isinstance(st, ast.For):
            raise LookupError("output_graphs serial branch: unexpected statement " + ast.unparse(st)[:60])
        coll = st.iter.attr
        var = st.target.id
        attrs = []
        for c in st.body:
            call = c.value
            if not (isinstance(call, ast.Call) and call.func.attr == "create_svg" and call.func.value.value.id == var):
                raise LookupError("output_graphs serial branch: unexpected body " + ast.unparse(c)[:60])
            attrs.append(call.func.value.attr)
        serial.append((coll, attrs))
    par = []
    for n in ast.walk(ast.Module(body=branch.orelse, type_ignores=[])):
        if isinstance(n, ast.ListComp) and isinstance(n.elt, ast.Tuple):
            gen = n.generators[0]
            coll = gen.iter.attr
            var = gen.target.id
            attrs = [e.attr for e in n.elt.elts if isinstance(e, ast.Attribute) and isinstance(e.value, ast.Name)
                     and e.value.id == var]
            par.append((coll, attrs))
    if not serial or not par:
        raise LookupError("output_graphs: branches not understood")
    src = ast.unparse(fn)
    if "process_map" not in src:
        raise LookupError("output_graphs: process_map not found")
    wrap = ast.unparse(_find(ast.parse(_src("ford/graphs.py")), ast.FunctionDef, "outputFuncWrap"))
    if "for f in args[0:-1]" not in wrap or "f.create_svg(args[-1])" not in wrap:
        raise LookupError("outputFuncWrap no longer calls create_svg on every graph of its tuple")
    return serial, par


def uses_iter_sorted():
    import jinja2
    from jinja2 import nodes

    env = jinja2.Environment()
    tree = env.parse(_src("ford/templates/macros.html"))
    for m in tree.find_all(nodes.Macro):
        if m.name == "use_list":
            for f in m.find_all(nodes.For):
                it = f.iter
                has_sort = False
                cur = it
                while isinstance(cur, nodes.Filter):
                    if cur.name == "sort":
                        has_sort = True
                    cur = cur.node
                if isinstance(cur, nodes.Getattr) and cur.attr == "uses":
                    return has_sort
    raise LookupError("use_list macro / loop over obj.uses not found")


def uses_is_set():
    src = _src("ford/sourceform.py")
    return "self.uses = set([m[0] for m in self.uses])" in src


# ---------------------------------------------------------------- emit


def generate() -> dict:
    sym = symbol_replacements()
    count_lower = numbering_shape()
    ffo = fortran_file_order()
    containers, chain_order = correlate_tables()
    fsorted, fsrc = file_iter_sorted()
    pages = page_list_order()
    steps, dirs = writeout_steps()
    sites = node_iter_sites()
    serial, par = output_graphs_tables()
    usorted = uses_iter_sorted()
    uset = uses_is_set()

    def pairs(xs):
        return lean_list(f"({lean_str(a)}, {lean_str(b)})" for a, b in xs)

    def gtab(xs):
        return lean_list(f"({lean_str(c)}, {lean_list(lean_str(a) for a in attrs)})" for c, attrs in xs)

    L = ["/- GENERATED by translate/c12.py from the working tree - do not edit -/",
         "import FordModel.Basic.Chars", "namespace Ford.Gen.C12", "",
         "/-- dict literal of NameSelector.get_name -/",
         "def symbolReplacements : List (Char × Str) := "
         + lean_list(f"({repr(k) if k != chr(39) else chr(34)+k+chr(34)}, {lean_str(v)})".replace("'", "'") for k, v in sym),
         "", "/-- NameSelector.get_name: is the counter kept under the lower-cased name (True) or the name as written? -/",
         f"def countKeyLower : Bool := {'true' if count_lower else 'false'}",
         "", "/-- order of the `for x in new_file.<attr>` loops of Project._fortran_file -/",
         "def fortranFileOrder : List Str := " + lean_list(lean_str(a) for a in ffo),
         "", "/-- CONTAINERS of Project.correlate, in dict order -/",
         "def containersOrder : List (Str × Str) := " + pairs(containers),
         "", "/-- chain(...) of code units in the gather loop of Project.correlate -/",
         "def unitChainOrder : List Str := " + lean_list(lean_str(a) for a in chain_order),
         "", "/-- entity_list_page_map of Documentation.__init__ (project list, page class), incl. the incl_src entry -/",
         "def pageListOrder : List (Str × Str) := " + pairs(pages),
         "", f"/-- `for filename in ...{fsrc}...`: is the file set sorted before it is iterated? -/",
         f"def fileIterSorted : Bool := {'true' if fsorted else 'false'}",
         "", "/-- `{% for use in obj.uses %}` of the use_list macro: iterated through a sort filter? -/",
         f"def usesIterSorted : Bool := {'true' if usorted else 'false'}",
         "", "/-- `self.uses = set(...)` in FortranCodeUnit.correlate -/",
         f"def usesIsSet : Bool := {'true' if uset else 'false'}",
         "", "/-- kinds of the top-level statements of Documentation.writeout -/",
         "def writeoutSteps : List Str := " + lean_list(lean_str(s) for s in steps),
         "", "/-- directories created by writeout -/",
         "def outDirs : List Str := " + lean_list(lean_str(s) for s in dirs),
         "", "/-- loops over node collections in graphs.py: (site, iterated through sorted()) -/",
         "def nodeIterSites : List (Str × Bool) := "
         + lean_list(f"({lean_str(s)}, {'true' if b else 'false'})" for s, b in sites),
         "", "/-- output_graphs, branch njobs == 0: (collection, graphs written per element) -/",
         "def serialGraphs : List (Str × List Str) := " + gtab(serial),
         "", "/-- output_graphs, process_map branch -/",
         "def parallelGraphs : List (Str × List Str) := " + gtab(par),
         "", "end Ford.Gen.C12", ""]
    text = "\n".join(L)
    common.write_if_changed(common.LEAN / "FordModel" / "Generated" / "C12.lean", text)
    return {"symbolReplacements": sym, "fortranFileOrder": ffo, "containersOrder": containers,
            "unitChainOrder": chain_order, "pageListOrder": pages, "fileIterSorted": fsorted, "countKeyLower": count_lower,
            "usesIterSorted": usorted, "usesIsSet": uset, "writeoutSteps": steps, "outDirs": dirs,
            "nodeIterSites": sites, "serialGraphs": serial, "parallelGraphs": par,
            "find_all_files_returns": find_all_files_returns_set()}


if __name__ == "__main__":
    import json
    print(json.dumps(generate(), indent=1))
