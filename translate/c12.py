"""Translator for C12: extracts the table-shaped / structural parts of the mechanism
from the working tree and writes lean/FordModel/Generated/C12.lean.

  symbolReplacements  dict literal inside NameSelector.get_name                  (sourceform.py)
  fortranFileOrder    order of the `for x in new_file.<attr>` loops              (fortran_project.py: _fortran_file)
  containersOrder     the CONTAINERS dict of Project.correlate                    (fortran_project.py)
  unitChainOrder      chain(sfile.modules, ...) of the gather loop in correlate   (fortran_project.py)
  pageListOrder       entity_list_page_map of Documentation.__init__ (+allfiles)  (output.py)
  fileIterSorted      is the iterable of the "Parsing files" loop wrapped in sorted()?   (variant switch)
  usesIterSorted      is `obj.uses` of the use_list macro iterated through a sort filter? (variant switch)
  writeoutSteps       kinds of the top-level statements of Documentation.writeout (first must remove out_dir)
  outDirs             the directory list created by writeout
  nodeIterSites       every loop over a node collection in graphs.py with "is it sorted(...)"
  serialGraphs / parallelGraphs   (collection, graph attributes) pairs of the two branches of output_graphs
  incDirsOrdered      does FortranReader keep / probe the include directories in the order given?  (variant switch)
  inheritedIterOrdered  do the loops of FortranType.correlate that collect inherited components / bindings walk
                      the parent's lists (source order), or a hash-ordered collection?           (variant switch)
  hashIterSites       every place in ford/*.py where a syntactically hash-ordered collection is turned into a
                      sequence (for / comprehension / list() / join ...), with "goes through sorted()"

A construct that cannot be found raises (= tie broken), it is never silently skipped.
"""
from __future__ import annotations

import ast
from pathlib import Path

from harness import common


def _src(rel):
    return (common.REPO / rel).read_text()


def _find(tree, kind, name):
    for n in ast.walk(tree):
        if isinstance(n, kind) and getattr(n, "name", None) == name:
            return n
    raise LookupError(f"{kind.__name__} {name} not found")


def _method(tree, cls, fn):
    c = _find(tree, ast.ClassDef, cls)
    for n in c.body:
        if isinstance(n, ast.FunctionDef) and n.name == fn:
            return n
    raise LookupError(f"{cls}.{fn} not found")


def lean_str(s: str) -> str:
    return '"' + s.replace("\\", "\\\\").replace('"', '\\"') + '".toList'


def lean_list(xs) -> str:
    return "[" + ", ".join(xs) + "]"


def is_sorted_call(node) -> bool:
    return isinstance(node, ast.Call) and isinstance(node.func, ast.Name) and node.func.id == "sorted"


def strip_wrappers(node):
    """enumerate(X) / (bar := ProgressBar("..", X)) -> X"""
    while True:
        if isinstance(node, ast.NamedExpr):
            node = node.value
        elif isinstance(node, ast.Call) and isinstance(node.func, ast.Name) and node.func.id == "enumerate":
            node = node.args[0]
        elif isinstance(node, ast.Call) and isinstance(node.func, ast.Name) and node.func.id == "ProgressBar":
            node = node.args[1]
        else:
            return node


# ---------------------------------------------------------------- extractors


def symbol_replacements():
    fn = _method(ast.parse(_src("ford/sourceform.py")), "NameSelector", "get_name")
    for n in ast.walk(fn):
        if isinstance(n, ast.For) and isinstance(n.iter, ast.Call) and isinstance(n.iter.func, ast.Attribute) \
                and n.iter.func.attr == "items" and isinstance(n.iter.func.value, ast.Dict):
            d = n.iter.func.value
            out = [(ast.literal_eval(k), ast.literal_eval(v)) for k, v in zip(d.keys, d.values)]
            if not out or any(len(k) != 1 for k, _ in out):
                raise LookupError("symbol table is not single-character keyed")
            return out
    raise LookupError("symbol replacement dict not found in NameSelector.get_name")


def numbering_shape():
    """Facts about get_name the model relies on: memo on `item in self._items`, counter keyed by
    (get_dir(), <key>), suffix only when num > 1, lower() applied to the output name.
    Returns True when <key> is the lower-cased name (repaired, commit 8dec555), False when it is
    the name as written (asIs)."""
    fn = _method(ast.parse(_src("ford/sourceform.py")), "NameSelector", "get_name")
    src = ast.unparse(fn)
    need = ["num = 1", "name = item.name.lower()", "if num > 1", "name + '~' + str(num)",
            "if item in self._items", "'__unnamed__'"]
    missing = [n for n in need if n not in src]
    if missing:
        raise LookupError(f"NameSelector.get_name no longer has the modelled shape: missing {missing}")
    as_is = "self._counts[item.get_dir()][item.name] + 1" in src and "self._counts[item.get_dir()][item.name] = num" in src
    lower_key = ("self._counts[item.get_dir()][name] + 1" in src and "self._counts[item.get_dir()][name] = num" in src
                 and src.index("name = item.name.lower()") < src.index("self._counts[item.get_dir()][name] + 1")
                 # the symbol replacements must come after the count, the key is the plain lower-cased name
                 and src.index("self._counts[item.get_dir()][name] = num") < src.index("name.replace("))
    if as_is == lower_key:
        raise LookupError("NameSelector.get_name: the key of the counter is neither item.name nor item.name.lower()")
    return lower_key


def fortran_file_order():
    fn = _method(ast.parse(_src("ford/fortran_project.py")), "Project", "_fortran_file")
    out = []
    for n in fn.body:
        if isinstance(n, ast.For) and isinstance(n.iter, ast.Attribute) and isinstance(n.iter.value, ast.Name) \
                and n.iter.value.id == "new_file":
            out.append(n.iter.attr)
    if not out:
        raise LookupError("_fortran_file loops not found")
    return out


def correlate_tables():
    fn = _method(ast.parse(_src("ford/fortran_project.py")), "Project", "correlate")
    containers = None
    chain_order = None
    for n in ast.walk(fn):
        if isinstance(n, ast.Assign) and isinstance(n.targets[0], ast.Name) and n.targets[0].id == "CONTAINERS":
            containers = [(ast.literal_eval(k), ast.literal_eval(v)) for k, v in zip(n.value.keys, n.value.values)]
        if isinstance(n, ast.For) and isinstance(n.target, ast.Name) and n.target.id == "code_unit":
            it = n.iter
            if isinstance(it, ast.Call) and getattr(it.func, "id", None) == "chain":
                chain_order = [a.attr for a in it.args]
    if not containers or not chain_order:
        raise LookupError("CONTAINERS / code-unit chain not found in Project.correlate")
    return containers, chain_order


def file_iter_sorted():
    fn = _method(ast.parse(_src("ford/fortran_project.py")), "Project", "__init__")
    for n in ast.walk(fn):
        if isinstance(n, ast.For) and isinstance(n.target, ast.Name) and n.target.id == "filename":
            it = strip_wrappers(n.iter)
            src = ast.unparse(it)
            if "find_all_files" not in src:
                raise LookupError(f"Parsing-files loop iterates {src}")
            return is_sorted_call(it), src
    raise LookupError("Parsing-files loop not found in Project.__init__")


def find_all_files_returns_set():
    fn = _find(ast.parse(_src("ford/fortran_project.py")), ast.FunctionDef, "find_all_files")
    rets = [n for n in ast.walk(fn) if isinstance(n, ast.Return)]
    if len(rets) != 1:
        raise LookupError("find_all_files: expected one return")
    return ast.unparse(rets[0].value)


def page_list_order():
    fn = _method(ast.parse(_src("ford/output.py")), "Documentation", "__init__")
    order = None
    extra = None
    for n in ast.walk(fn):
        if isinstance(n, ast.AnnAssign) and getattr(n.target, "id", None) == "entity_list_page_map":
            order = [(e.elts[0].attr, e.elts[1].id) for e in n.value.elts]
        if isinstance(n, ast.Call) and isinstance(n.func, ast.Attribute) and n.func.attr == "append" \
                and getattr(n.func.value, "id", None) == "entity_list_page_map":
            t = n.args[0]
            extra = (t.elts[0].attr, t.elts[1].id)
    if not order or not extra:
        raise LookupError("entity_list_page_map not found in Documentation.__init__")
    return order + [extra]


def writeout_steps():
    fn = _method(ast.parse(_src("ford/output.py")), "Documentation", "writeout")
    steps = []
    dirs = None
    for st in fn.body:
        src = ast.unparse(st)
        if isinstance(st, ast.Expr) and isinstance(st.value, ast.Constant):
            continue  # docstring
        if isinstance(st, ast.AnnAssign) or isinstance(st, ast.Assign):
            steps.append("bind")
        elif isinstance(st, ast.If) and "is_file()" in ast.unparse(st.test) and "unlink" in src and "rmtree(out_dir" in src:
            steps.append("removeOut")
        elif isinstance(st, ast.Expr) and src.startswith("shutil.rmtree(out_dir"):
            steps.append("removeOut")
        elif "out_dir.unlink" in src and "rmtree(out_dir" not in src:
            steps.append("unlinkIfFile")  # removes a plain file only, a directory stays
        elif isinstance(st, ast.Try) and "out_dir.mkdir" in src:
            steps.append("mkdirOut")
        elif isinstance(st, ast.For) and isinstance(st.iter, ast.List) and ".mkdir" in src:
            got = [ast.literal_eval(e) for e in st.iter.elts]
            if dirs is None:
                dirs = got
            steps.append("mkdirSub")
        else:
            steps.append("write")
    if dirs is None:
        raise LookupError("writeout: directory list not found")
    if "removeOut" not in steps:
        # still a table (the theorem about it will fail), not a translator error
        pass
    return steps, dirs


GRAPH_SITES = [
    # (class, function, iterated expression with sorted()/list() peeled off)
    ("FortranGraph", "__init__", "=root"),
    ("FortranGraph", "__init__", "self.root"),
    ("FortranGraph", "add_to_graph", "nodes"),
    ("FortranGraph", "add_nodes", "nodes"),
    ("ModuleGraph", "add_node", "node.uses"),
    ("UsesGraph", "add_node", "node.uses"),
    ("UsedByGraph", "add_node", "getattr(node, 'used_by', [])"),
    ("UsedByGraph", "add_node", "getattr(node, 'children', [])"),
    ("FileGraph", "add_node", "node.efferent"),
    ("EfferentGraph", "add_node", "node.efferent"),
    ("AfferentGraph", "add_node", "node.afferent"),
    ("CallGraph", "add_node", "node.calls"),
    ("CallGraph", "add_node", "getattr(node, 'interfaces', [])"),
    ("CallsGraph", "add_node", "node.calls"),
    ("CallsGraph", "add_node", "getattr(node, 'interfaces', [])"),
    ("CalledByGraph", "add_node", "node.called_by"),
    ("CalledByGraph", "add_node", "getattr(node, 'interfaced_by', [])"),
    ("GraphManager", "graph_all", "self.graph_objs"),
    ("GraphManager", "graph_all", "=self.modules"),
    ("GraphManager", "graph_all", "=self.procedures | self.internal_procedures | self.bound_procedures"),
    ("GraphManager", "graph_all", "self.programs"),
    ("GraphManager", "graph_all", "self.procedures"),
]


def peel(node):
    """sorted(list(X)) / sorted(X) / list(X) -> (X, was_sorted)"""
    was_sorted = False
    while isinstance(node, ast.Call) and isinstance(node.func, ast.Name) and node.func.id in ("sorted", "list") \
            and len(node.args) == 1:
        if node.func.id == "sorted":
            was_sorted = True
        node = node.args[0]
    return node, was_sorted


def node_iter_sites():
    tree = ast.parse(_src("ford/graphs.py"))
    out = []
    for cls, fn, expr in GRAPH_SITES:
        f = _method(tree, cls, fn)
        want_assign = expr.startswith("=")  # "=X": the site is an assignment `v = sorted(list(X))`
        text = expr.lstrip("=")
        found = None
        for n in ast.walk(f):
            if want_assign and isinstance(n, ast.Assign):
                cand = n.value
            elif not want_assign and isinstance(n, ast.For):
                cand = strip_wrappers(n.iter)
            else:
                continue
            inner, was_sorted = peel(cand)
            if ast.unparse(inner) == text:
                # several loops over the same expression in one function: all must be sorted
                found = was_sorted if found is None else (found and was_sorted)
        if found is None:
            raise LookupError(f"graphs.py: iteration site {cls}.{fn} over {text} not found")
        out.append((f"{cls}.{fn}: {text}", found))
    return out


def output_graphs_tables():
    fn = _method(ast.parse(_src("ford/graphs.py")), "GraphManager", "output_graphs")
    branch = None
    for n in ast.walk(fn):
        if isinstance(n, ast.If) and ast.unparse(n.test) == "njobs == 0":
            branch = n
    if branch is None:
        raise LookupError("output_graphs: `if njobs == 0` not found")
    serial = []
    for st in branch.body:
        if not isinstance(st, ast.For):
            raise LookupError("output_graphs serial branch: unexpected statement " + ast.unparse(st)[:60])
        coll = st.iter.attr
        var = st.target.id
        attrs = []
        for c in st.body:
            call = c.value
            if not (isinstance(call, ast.Call) and call.func.attr == "create_svg" and call.func.value.value.id == var):
                raise LookupError("output_graphs serial branch: unexpected body " + ast.unparse(c)[:60])
            attrs.append(call.func.value.attr)
        serial.append((coll, attrs))
    par = []
    for n in ast.walk(ast.Module(body=branch.orelse, type_ignores=[])):
        if isinstance(n, ast.ListComp) and isinstance(n.elt, ast.Tuple):
            gen = n.generators[0]
            coll = gen.iter.attr
            var = gen.target.id
            attrs = [e.attr for e in n.elt.elts if isinstance(e, ast.Attribute) and isinstance(e.value, ast.Name)
                     and e.value.id == var]
            par.append((coll, attrs))
    if not serial or not par:
        raise LookupError("output_graphs: branches not understood")
    src = ast.unparse(fn)
    if "process_map" not in src:
        raise LookupError("output_graphs: process_map not found")
    wrap = ast.unparse(_find(ast.parse(_src("ford/graphs.py")), ast.FunctionDef, "outputFuncWrap"))
    if "for f in args[0:-1]" not in wrap or "f.create_svg(args[-1])" not in wrap:
        raise LookupError("outputFuncWrap no longer calls create_svg on every graph of its tuple")
    return serial, par


def uses_iter_sorted():
    import jinja2
    from jinja2 import nodes

    env = jinja2.Environment()
    tree = env.parse(_src("ford/templates/macros.html"))
    for m in tree.find_all(nodes.Macro):
        if m.name == "use_list":
            for f in m.find_all(nodes.For):
                it = f.iter
                has_sort = False
                cur = it
                while isinstance(cur, nodes.Filter):
                    if cur.name == "sort":
                        has_sort = True
                    cur = cur.node
                if isinstance(cur, nodes.Getattr) and cur.attr == "uses":
                    return has_sort
    raise LookupError("use_list macro / loop over obj.uses not found")


def uses_is_set():
    src = _src("ford/sourceform.py")
    return "self.uses = set([m[0] for m in self.uses])" in src



# ---------------------------------------------------------------- order class of an expression

HASH_OPS = (ast.BitOr, ast.BitAnd, ast.Sub, ast.BitXor)
# calls that hand their argument's order on
PASS_CALLS = {"list", "tuple", "reversed", "enumerate", "iter", "filter", "map", "chain", "ProgressBar", "zip",
              "copy", "deepcopy"}
# consumers for which the order of the argument does not matter
INSENSITIVE_CALLS = {"sorted", "set", "frozenset", "len", "any", "all", "sum", "min", "max", "bool", "dict",
                     "Counter", "toposort_flatten", "toposort", "isinstance"}
SET_METHODS = {"union", "intersection", "difference", "symmetric_difference"}
SEQUENCING_CALLS = {"list", "tuple", "enumerate", "map", "filter", "zip", "chain", "iter", "next", "reversed"}


def _is_dict_view(n) -> bool:
    return isinstance(n, ast.Call) and isinstance(n.func, ast.Attribute) and n.func.attr in ("keys", "items") \
        and not n.args


def _is_set_annotation(a) -> bool:
    s = ast.unparse(a) if a is not None else ""
    return s.startswith(("Set[", "set[", "FrozenSet[", "frozenset[", "typing.Set[", "AbstractSet[")) \
        or s in ("set", "Set", "frozenset")


def _call_name(n):
    f = n.func
    if isinstance(f, ast.Name):
        return f.id, False
    if isinstance(f, ast.Attribute):
        return f.attr, True
    return None, False


class OrderClass:
    """`cls(expr)` is "hash" when the expression is *syntactically* a hash-ordered collection or a sequence made
    from one without sorting (set()/frozenset(), set literal / comprehension, a set operator with such an operand
    or with a dict view, a set method, list()/tuple()/... of those, a local name or an attribute of the same
    file that is bound to one), "sorted" for sorted(...), else "ordered" (includes everything unknown)."""

    def __init__(self, set_attrs, env):
        self.set_attrs = set_attrs
        self.env = env

    def cls(self, n) -> str:
        if isinstance(n, ast.NamedExpr):
            return self.cls(n.value)
        if isinstance(n, (ast.Set, ast.SetComp)):
            return "hash"
        if isinstance(n, ast.Call):
            name, is_method = _call_name(n)
            if name == "sorted" and not is_method:
                return "sorted"
            if name in ("set", "frozenset") and not is_method:
                return "hash"
            if is_method and name in SET_METHODS:
                return "hash"
            if is_method and name == "copy":
                return self.cls(n.func.value)
            if name in PASS_CALLS and not is_method:
                return "hash" if any(self.cls(a) == "hash" for a in n.args) else "ordered"
            if name == "getattr" and len(n.args) >= 2 and isinstance(n.args[1], ast.Constant):
                return "hash" if n.args[1].value in self.set_attrs else "ordered"
            return "ordered"
        if isinstance(n, ast.BinOp):
            l, r = self.cls(n.left), self.cls(n.right)
            if isinstance(n.op, HASH_OPS) and ("hash" in (l, r) or _is_dict_view(n.left) or _is_dict_view(n.right)):
                return "hash"
            if isinstance(n.op, ast.Add) and "hash" in (l, r):
                return "hash"
            return "ordered"
        if isinstance(n, ast.BoolOp):
            return "hash" if any(self.cls(v) == "hash" for v in n.values) else "ordered"
        if isinstance(n, ast.IfExp):
            return "hash" if "hash" in (self.cls(n.body), self.cls(n.orelse)) else "ordered"
        if isinstance(n, ast.Name):
            return self.env.get(n.id, "ordered")
        if isinstance(n, ast.Attribute):
            return "hash" if n.attr in self.set_attrs else "ordered"
        if isinstance(n, (ast.ListComp, ast.GeneratorExp)):
            return "hash" if any(self.cls(g.iter) == "hash" for g in n.generators) else "ordered"
        return "ordered"


def _file_set_attrs(tree) -> set:
    """names of attributes that are bound to a hash-class value (or annotated as a set) somewhere in the file"""
    out = set()
    c0 = OrderClass(set(), {})
    for n in ast.walk(tree):
        if isinstance(n, ast.Assign):
            for t in n.targets:
                if isinstance(t, ast.Attribute) and c0.cls(n.value) == "hash":
                    out.add(t.attr)
        if isinstance(n, ast.AnnAssign) and isinstance(n.target, ast.Attribute):
            if _is_set_annotation(n.annotation) or (n.value is not None and c0.cls(n.value) == "hash"):
                out.add(n.target.attr)
    return out


def _local_env(fn, set_attrs) -> dict:
    env: dict = {}
    c = OrderClass(set_attrs, env)
    for _ in range(3):  # chains a = set(..); b = a - c; d = list(b)
        for n in ast.walk(fn):
            if isinstance(n, ast.Assign) and len(n.targets) == 1 and isinstance(n.targets[0], ast.Name):
                if c.cls(n.value) == "hash":
                    env[n.targets[0].id] = "hash"
            if isinstance(n, ast.AnnAssign) and isinstance(n.target, ast.Name):
                if _is_set_annotation(n.annotation) or (n.value is not None and c.cls(n.value) == "hash"):
                    env[n.target.id] = "hash"
    return env


def _classifier_for(rel, cls_name, fn_name):
    tree = ast.parse(_src(rel))
    fn = _method(tree, cls_name, fn_name)
    sa = _file_set_attrs(tree)
    return fn, OrderClass(sa, _local_env(fn, sa))


def inc_dirs_ordered():
    """FortranReader keeps the include directories (`self.inc_dirs = ...` in __init__) and probes them
    (`for b in [dirname] + self.inc_dirs` in include()) in the order given <=> neither expression is hash-ordered.
    `sorted(...)` would be deterministic but not the configured order: not the modelled shape, raise."""
    fn, c = _classifier_for("ford/reader.py", "FortranReader", "__init__")
    kept = None
    for n in ast.walk(fn):
        if isinstance(n, (ast.Assign, ast.AnnAssign)):
            tgts = n.targets if isinstance(n, ast.Assign) else [n.target]
            for t in tgts:
                if isinstance(t, ast.Attribute) and t.attr == "inc_dirs" and isinstance(t.value, ast.Name) \
                        and t.value.id == "self":
                    kept = n.value
    if kept is None:
        raise LookupError("FortranReader.__init__: assignment to self.inc_dirs not found")
    if "inc_dirs" not in ast.unparse(kept):
        raise LookupError(f"FortranReader.__init__: self.inc_dirs = {ast.unparse(kept)} does not come from inc_dirs")
    fn2, c2 = _classifier_for("ford/reader.py", "FortranReader", "include")
    probe = None
    for n in ast.walk(fn2):
        if isinstance(n, ast.For) and "inc_dirs" in ast.unparse(n.iter):
            probe = n
    if probe is None:
        raise LookupError("FortranReader.include: loop over the include directories not found")
    it = probe.iter
    if not (isinstance(it, ast.BinOp) and isinstance(it.op, ast.Add) and isinstance(it.left, ast.List)
            and "dirname(self.name)" in ast.unparse(it.left)) or not probe.orelse \
            or not any(isinstance(x, ast.Break) for x in ast.walk(probe)):
        raise LookupError("FortranReader.include: no longer `for b in [dirname(self.name)] + <dirs>: ... break ... else`")
    classes = [c.cls(kept), c2.cls(it)]
    if "sorted" in classes:
        raise LookupError("FortranReader: include directories are sorted, not the modelled shape")
    # the nested reader for the included file is given self.inc_dirs again
    if "inc_dirs=self.inc_dirs" not in ast.unparse(fn2):
        raise LookupError("FortranReader.include: nested reader is not given inc_dirs=self.inc_dirs")
    # ... and the list handed to the reader is the option value itself
    sf = ast.unparse(_method(ast.parse(_src("ford/sourceform.py")), "FortranSourceFile", "__init__"))
    if "settings.include" not in sf:
        raise LookupError("FortranSourceFile.__init__: settings.include is not handed to FortranReader")
    return "hash" not in classes, ast.unparse(kept)


def inherited_iter_ordered():
    """FortranType.correlate: every loop / comprehension that feeds `inherited` (components, then bindings) or
    `inherited_generic` walks an ordered collection <=> none of their iterables is hash-ordered."""
    fn, c = _classifier_for("ford/sourceform.py", "FortranType", "correlate")
    feeds = []

    def feeding(body_nodes):
        for b in body_nodes:
            for x in ast.walk(b):
                if isinstance(x, ast.Call) and isinstance(x.func, ast.Attribute) and x.func.attr in ("append", "extend", "insert") \
                        and isinstance(x.func.value, ast.Name) and x.func.value.id.startswith("inherited"):
                    return True
        return False

    for n in ast.walk(fn):
        if isinstance(n, ast.For) and feeding(n.body):
            feeds.append(n.iter)
        if isinstance(n, ast.Assign) and len(n.targets) == 1 and isinstance(n.targets[0], ast.Name) \
                and n.targets[0].id.startswith("inherited"):
            if isinstance(n.value, (ast.ListComp, ast.GeneratorExp)):
                feeds += [g.iter for g in n.value.generators]
            elif isinstance(n.value, ast.List) and not n.value.elts:
                pass
            else:
                feeds.append(n.value)
    if len(feeds) < 2:
        raise LookupError("FortranType.correlate: the loops collecting inherited components / bindings were not found")
    src = ast.unparse(fn)
    if "self.boundprocs = inherited + self.boundprocs" not in src or "self.variables = inherited + self.variables" not in src:
        raise LookupError("FortranType.correlate: `inherited + self.boundprocs` / `inherited + self.variables` not found")
    classes = [c.cls(f) for f in feeds]
    if "sorted" in classes:
        raise LookupError("FortranType.correlate: inherited entities are sorted, not the modelled shape")
    return "hash" not in classes, [ast.unparse(f) for f in feeds]


def hash_iter_sites():
    """[(site, goes through sorted())] over ford/*.py; a site is `<file>:<Class.function>: <consumer> <expression>`"""
    out: dict = {}
    files = sorted((common.REPO / "ford").glob("*.py"))
    if not files:
        raise LookupError("no ford/*.py")
    for path in files:
        tree = ast.parse(path.read_text())
        set_attrs = _file_set_attrs(tree)

        def visit_fn(fn, qual):
            c = OrderClass(set_attrs, _local_env(fn, set_attrs))
            parents = {}
            for p in ast.walk(fn):
                for ch in ast.iter_child_nodes(p):
                    parents[ch] = p

            def insensitive(node) -> bool:
                """is `node` directly consumed by something for which order does not matter?"""
                p = parents.get(node)
                while isinstance(p, ast.NamedExpr):
                    node, p = p, parents.get(p)
                if isinstance(p, ast.Call):
                    name, is_method = _call_name(p)
                    if name in INSENSITIVE_CALLS and not is_method and node in p.args:
                        return True
                    if is_method and name in (SET_METHODS | {"update", "issubset", "issuperset", "isdisjoint"}) \
                            and node in p.args and c.cls(p.func.value) == "hash":
                        return True
                if isinstance(p, ast.Compare):
                    return True
                return False

            def note(kind, e):
                k = c.cls(e)
                if k == "hash":
                    key = f"{path.name}:{qual}: {kind} {ast.unparse(e)}"
                    out[key] = False
                elif k == "sorted" and isinstance(e, ast.Call) and e.args and c.cls(e.args[0]) == "hash":
                    key = f"{path.name}:{qual}: {kind} {ast.unparse(e.args[0])}"
                    out.setdefault(key, True)

            for n in ast.walk(fn):
                if isinstance(n, (ast.FunctionDef, ast.AsyncFunctionDef, ast.Lambda)) and n is not fn:
                    continue
                if isinstance(n, (ast.For, ast.AsyncFor)):
                    note("for", strip_wrappers(n.iter) if c.cls(n.iter) != "hash" else n.iter)
                elif isinstance(n, (ast.ListComp, ast.GeneratorExp, ast.DictComp)):
                    if not insensitive(n):
                        for g in n.generators:
                            note("comprehension", g.iter)
                elif isinstance(n, ast.Call):
                    name, is_method = _call_name(n)
                    if not is_method and name in SEQUENCING_CALLS and not insensitive(n):
                        for a in n.args:
                            if not isinstance(a, (ast.ListComp, ast.GeneratorExp)):
                                note(name + "()", a)
                    if is_method and name in ("join", "extend"):
                        for a in n.args:
                            if not isinstance(a, (ast.ListComp, ast.GeneratorExp)):
                                note("." + name + "()", a)
                    if is_method and name == "pop" and not n.args and c.cls(n.func.value) == "hash":
                        out[f"{path.name}:{qual}: pop() {ast.unparse(n.func.value)}"] = False
                elif isinstance(n, ast.Starred):
                    note("*", n.value)

        def walk_defs(node, prefix):
            for ch in ast.iter_child_nodes(node):
                if isinstance(ch, (ast.FunctionDef, ast.AsyncFunctionDef)):
                    visit_fn(ch, prefix + ch.name)
                    walk_defs(ch, prefix + ch.name + ".")
                elif isinstance(ch, ast.ClassDef):
                    walk_defs(ch, prefix + ch.name + ".")

        walk_defs(tree, "")
    if not any(v for v in out.values()):
        raise LookupError("hash_iter_sites: not a single sorted(...) over a set found - the scanner no longer understands the sources")
    return sorted(out.items())


# ---------------------------------------------------------------- order definitions and sort sites


def _self_other_compare(fn, op):
    """`return self.<X> <op> other.<X>` -> text of X (with `self` written `_`), else None"""
    body = [st for st in fn.body if not (isinstance(st, ast.Expr) and isinstance(st.value, ast.Constant))]
    if len(body) != 1 or not isinstance(body[0], ast.Return):
        return None
    v = body[0].value
    if not (isinstance(v, ast.Compare) and len(v.ops) == 1 and isinstance(v.ops[0], op)):
        return None
    args = [a.arg for a in fn.args.args]
    if len(args) != 2:
        return None

    class Ren(ast.NodeTransformer):
        def __init__(self, frm):
            self.frm = frm

        def visit_Name(self, n):
            return ast.copy_location(ast.Name(id="_", ctx=n.ctx), n) if n.id == self.frm else n

    import copy
    l = ast.unparse(Ren(args[0]).visit(copy.deepcopy(v.left)))
    r = ast.unparse(Ren(args[1]).visit(copy.deepcopy(v.comparators[0])))
    if l != r or not l.startswith("_."):
        return None
    return l[2:]


def order_defs():
    """every class of ford/*.py that defines `__lt__`: (file:Class, key compared by __lt__, key compared by
    __eq__ or '', key hashed by __hash__ or '').  `sorted()` over a set of such objects is independent of the
    iteration order of the set only if the key distinguishes the members of the set: for graph nodes the set
    keeps one node per `ident` (__eq__/__hash__), so __lt__ has to compare the same attribute."""
    out = []
    for path in sorted((common.REPO / "ford").glob("*.py")):
        tree = ast.parse(path.read_text())
        for c in ast.walk(tree):
            if not isinstance(c, ast.ClassDef):
                continue
            meths = {m.name: m for m in c.body if isinstance(m, ast.FunctionDef)}
            if "__lt__" not in meths:
                continue
            lt = _self_other_compare(meths["__lt__"], ast.Lt)
            if lt is None:
                raise LookupError(f"{path.name}:{c.name}.__lt__ is not `return self.<key> < other.<key>`: "
                                  + ast.unparse(meths["__lt__"])[:200])
            eq = ""
            if "__eq__" in meths:
                eq = _self_other_compare(meths["__eq__"], ast.Eq)
                if eq is None:
                    raise LookupError(f"{path.name}:{c.name}.__eq__ is not `return self.<key> == other.<key>`")
            hs = ""
            if "__hash__" in meths:
                hits = [ast.unparse(n.args[0]) for n in ast.walk(meths["__hash__"])
                        if isinstance(n, ast.Call) and isinstance(n.func, ast.Name) and n.func.id == "hash" and n.args]
                if len(hits) != 1 or not hits[0].startswith("self."):
                    raise LookupError(f"{path.name}:{c.name}.__hash__ does not hash one attribute of self")
                hs = hits[0][len("self."):]
            for other in ("__le__", "__gt__", "__ge__"):
                if other in meths:
                    raise LookupError(f"{path.name}:{c.name} defines {other}: not the modelled shape")
            out.append((f"{path.name}:{c.name}", lt, eq, hs))
    names = [o[0] for o in out]
    for need in ("graphs.py:BaseNode", "sourceform.py:FortranBase"):
        if need not in names:
            raise LookupError(f"{need}.__lt__ not found")
    return out


FS_ENUM_CALLS = {"listdir", "scandir", "glob", "rglob", "iterdir", "walk", "find_all_files", "iglob"}


def sort_sites():
    """every `sorted(..)`, `.sort(..)`, `min/max(.., key=)` of ford/*.py and every `|sort` filter of the templates:
    (site, kind of input, key).  Kind of input: `hash` (syntactically a hash-ordered collection), `fs` (a file-system
    enumeration: listdir / glob / iterdir / walk ...), else `other`.  A stable sort on a key that does not distinguish
    the elements hands the order of its input on, so every site must either use the natural order of the elements
    (no key; for objects that is `__lt__`, see order_defs) or have been reviewed."""
    out = []
    for path in sorted((common.REPO / "ford").glob("*.py")):
        tree = ast.parse(path.read_text())
        set_attrs = _file_set_attrs(tree)

        def visit_fn(fn, qual):
            c = OrderClass(set_attrs, _local_env(fn, set_attrs))

            def kind(e):
                if e is None:
                    return "other"
                if c.cls(e) == "hash":
                    return "hash"
                for x in ast.walk(e):
                    if isinstance(x, ast.Call):
                        nm, _m = _call_name(x)
                        if nm in FS_ENUM_CALLS:
                            return "fs"
                return "other"

            for n in ast.walk(fn):
                if isinstance(n, (ast.FunctionDef, ast.AsyncFunctionDef)) and n is not fn:
                    continue
                if not isinstance(n, ast.Call):
                    continue
                nm, is_m = _call_name(n)
                kws = {k.arg: k.value for k in n.keywords if k.arg}
                if nm == "sorted" and not is_m:
                    arg = n.args[0] if n.args else None
                    key = kws.get("key", n.args[1] if len(n.args) > 1 else None)
                    inner, _ = peel(arg) if arg is not None else (None, False)
                    out.append((f"{path.name}:{qual}: sorted({ast.unparse(inner) if inner is not None else ''})",
                                kind(arg), ast.unparse(key) if key is not None else "",
                                "reverse" if "reverse" in kws else ""))
                elif nm == "sort" and is_m:
                    key = kws.get("key")
                    out.append((f"{path.name}:{qual}: {ast.unparse(n.func.value)}.sort()", kind(n.func.value),
                                ast.unparse(key) if key is not None else "", "reverse" if "reverse" in kws else ""))
                elif nm in ("min", "max") and not is_m and "key" in kws:
                    out.append((f"{path.name}:{qual}: {nm}({ast.unparse(n.args[0]) if n.args else ''})",
                                kind(n.args[0] if n.args else None), ast.unparse(kws["key"]), ""))

        def walk_defs(node, prefix):
            for ch in ast.iter_child_nodes(node):
                if isinstance(ch, (ast.FunctionDef, ast.AsyncFunctionDef)):
                    visit_fn(ch, prefix + ch.name)
                    walk_defs(ch, prefix + ch.name + ".")
                elif isinstance(ch, ast.ClassDef):
                    walk_defs(ch, prefix + ch.name + ".")

        walk_defs(tree, "")
    # the templates: `x | sort(...)`, `dictsort`, `groupby`, `unique`
    import jinja2
    from jinja2 import nodes as jn

    env = jinja2.Environment()
    tdir = common.REPO / "ford" / "templates"
    for tp in sorted(tdir.glob("*.html")):
        try:
            tt = env.parse(tp.read_text())
        except Exception as e:  # a template Jinja cannot parse is somebody else's problem, but say so
            raise LookupError(f"template {tp.name} does not parse: {e}")
        for f in tt.find_all(jn.Filter):
            if f.name in ("sort", "dictsort", "groupby", "unique"):
                args = [_jinja_src(a) for a in f.args] + [f"{k.key}={_jinja_src(k.value)}" for k in f.kwargs]
                out.append((f"templates/{tp.name}: {_jinja_src(f.node)}|{f.name}", "other", ", ".join(args), ""))
    if not any(s[0].startswith("pagetree.py:get_page_tree: sorted(") for s in out):
        raise LookupError("sort_sites: the sort of the page directory listing in get_page_tree was not found")
    # one entry per (site, kind, key): several loops over the same expression in one function collapse
    return sorted(set(out))


def _jinja_src(n) -> str:
    from jinja2 import nodes as jn
    if isinstance(n, jn.Name):
        return n.name
    if isinstance(n, jn.Getattr):
        return _jinja_src(n.node) + "." + n.attr
    if isinstance(n, jn.Const):
        return repr(n.value)
    if isinstance(n, jn.Filter):
        return _jinja_src(n.node) + "|" + n.name
    if isinstance(n, jn.Getitem):
        return _jinja_src(n.node) + "[..]"
    return type(n).__name__


def page_list_natural():
    """get_page_tree: `filelist = sorted(os.listdir(topdir))` - the listing of a page directory is sorted by the
    entry names themselves (no key, not reversed; names in one directory are pairwise different) <=> True.
    Also checks the shape the model relies on: `index.md` removed, user list merged in front with
    OrderedDict.fromkeys, dot files and `~` backups skipped."""
    fn = _find(ast.parse(_src("ford/pagetree.py")), ast.FunctionDef, "get_page_tree")
    src = ast.unparse(fn)
    found = None
    for n in ast.walk(fn):
        if isinstance(n, ast.Assign) and len(n.targets) == 1 and isinstance(n.targets[0], ast.Name) \
                and n.targets[0].id == "filelist":
            found = n.value
    if found is None:
        raise LookupError("get_page_tree: assignment to filelist not found")
    text = ast.unparse(found)
    if not any(f in text for f in ("listdir", "scandir", "iterdir")):
        raise LookupError(f"get_page_tree: filelist = {text} is not a directory listing")
    need = ["filelist.remove('index.md')", "OrderedDict.fromkeys(node.ordered_subpages + filelist)",
            "if name[0] == '.'", "if name[-1] == '~'", "for name in mergedfilelist"]
    missing = [x for x in need if x not in src]
    if missing:
        raise LookupError(f"get_page_tree no longer has the modelled shape: missing {missing}")
    natural = text == "sorted(os.listdir(topdir))"
    return natural, text


def lean_chars(s: str) -> str:
    """char-list literal (fast for `decide`, unlike "..".toList)"""
    def ch(c):
        if c == "'":
            return "'\\''"
        if c == "\\":
            return "'\\\\'"
        if ord(c) < 32 or ord(c) > 126:
            return f"Char.ofNat {ord(c)}"
        return f"'{c}'"
    return "[" + ", ".join(ch(c) for c in s) + "]"

# ---------------------------------------------------------------- emit


def generate() -> dict:
    sym = symbol_replacements()
    count_lower = numbering_shape()
    ffo = fortran_file_order()
    containers, chain_order = correlate_tables()
    fsorted, fsrc = file_iter_sorted()
    pages = page_list_order()
    steps, dirs = writeout_steps()
    sites = node_iter_sites()
    serial, par = output_graphs_tables()
    usorted = uses_iter_sorted()
    uset = uses_is_set()
    inc_ordered, inc_src = inc_dirs_ordered()
    inh_ordered, inh_src = inherited_iter_ordered()
    hsites = hash_iter_sites()
    odefs = order_defs()
    ssites = sort_sites()
    page_natural, page_src = page_list_natural()
    lt_of = {o[0]: o[1] for o in odefs}

    def pairs(xs):
        return lean_list(f"({lean_str(a)}, {lean_str(b)})" for a, b in xs)

    def gtab(xs):
        return lean_list(f"({lean_str(c)}, {lean_list(lean_str(a) for a in attrs)})" for c, attrs in xs)

    L = ["/- GENERATED by translate/c12.py from the working tree - do not edit -/",
         "import FordModel.Basic.Chars", "namespace Ford.Gen.C12", "",
         "/-- dict literal of NameSelector.get_name -/",
         "def symbolReplacements : List (Char × Str) := "
         + lean_list(f"({repr(k) if k != chr(39) else chr(34)+k+chr(34)}, {lean_str(v)})".replace("'", "'") for k, v in sym),
         "", "/-- NameSelector.get_name: is the counter kept under the lower-cased name (True) or the name as written? -/",
         f"def countKeyLower : Bool := {'true' if count_lower else 'false'}",
         "", "/-- order of the `for x in new_file.<attr>` loops of Project._fortran_file -/",
         "def fortranFileOrder : List Str := " + lean_list(lean_str(a) for a in ffo),
         "", "/-- CONTAINERS of Project.correlate, in dict order -/",
         "def containersOrder : List (Str × Str) := " + pairs(containers),
         "", "/-- chain(...) of code units in the gather loop of Project.correlate -/",
         "def unitChainOrder : List Str := " + lean_list(lean_str(a) for a in chain_order),
         "", "/-- entity_list_page_map of Documentation.__init__ (project list, page class), incl. the incl_src entry -/",
         "def pageListOrder : List (Str × Str) := " + pairs(pages),
         "", f"/-- `for filename in ...{fsrc}...`: is the file set sorted before it is iterated? -/",
         f"def fileIterSorted : Bool := {'true' if fsorted else 'false'}",
         "", "/-- `{% for use in obj.uses %}` of the use_list macro: iterated through a sort filter? -/",
         f"def usesIterSorted : Bool := {'true' if usorted else 'false'}",
         "", "/-- `self.uses = set(...)` in FortranCodeUnit.correlate -/",
         f"def usesIsSet : Bool := {'true' if uset else 'false'}",
         "", "/-- kinds of the top-level statements of Documentation.writeout -/",
         "def writeoutSteps : List Str := " + lean_list(lean_str(s) for s in steps),
         "", "/-- directories created by writeout -/",
         "def outDirs : List Str := " + lean_list(lean_str(s) for s in dirs),
         "", "/-- loops over node collections in graphs.py: (site, iterated through sorted()) -/",
         "def nodeIterSites : List (Str × Bool) := "
         + lean_list(f"({lean_str(s)}, {'true' if b else 'false'})" for s, b in sites),
         "", "/-- output_graphs, branch njobs == 0: (collection, graphs written per element) -/",
         "def serialGraphs : List (Str × List Str) := " + gtab(serial),
         "", "/-- output_graphs, process_map branch -/",
         "def parallelGraphs : List (Str × List Str) := " + gtab(par),
         "", f"/-- FortranReader: `self.inc_dirs = {inc_src}` and the probing loop of include() keep the order given -/",
         f"def incDirsOrdered : Bool := {'true' if inc_ordered else 'false'}",
         "", "/-- FortranType.correlate: the loops that collect inherited components / bindings iterate "
         + "; ".join(inh_src).replace("-/", "- /") + " : all in source order? -/",
         f"def inheritedIterOrdered : Bool := {'true' if inh_ordered else 'false'}",
         "", "/-- ford/*.py: syntactically hash-ordered collections turned into a sequence: (site, goes through sorted()) -/",
         "def hashIterSites : List (Str × Bool) := "
         + lean_list(f"({lean_chars(s)}, {'true' if b else 'false'})" for s, b in hsites),
         "", "/-- every class of ford/*.py with `__lt__`: (class, key compared by __lt__, key of __eq__ or empty, key of __hash__ or empty) -/",
         "def orderDefs : List (Str × Str × Str × Str) := "
         + lean_list(f"({lean_chars(a)}, {lean_chars(b)}, {lean_chars(c_)}, {lean_chars(d)})" for a, b, c_, d in odefs),
         "", f"/-- BaseNode.__lt__ compares `{lt_of['graphs.py:BaseNode']}`: is that the identifier the node sets are keyed by? -/",
         f"def nodeLtByIdent : Bool := {'true' if lt_of['graphs.py:BaseNode'] == 'ident' else 'false'}",
         "", f"/-- FortranBase.__lt__ compares `{lt_of['sourceform.py:FortranBase']}`: the identifier? -/",
         f"def entityLtByIdent : Bool := {'true' if lt_of['sourceform.py:FortranBase'] == 'ident' else 'false'}",
         "", "/-- every sorted() / .sort() / keyed min,max of ford/*.py and every sort filter of the templates: "
         "(site, kind of input hash|fs|other, key or empty, `reverse` or empty) -/",
         "def sortSites : List (Str × Str × Str × Str) := "
         + lean_list(f"({lean_chars(a)}, {lean_chars(b)}, {lean_chars(c_)}, {lean_chars(d)})" for a, b, c_, d in ssites),
         "", f"/-- get_page_tree: `filelist = {page_src}`: sorted by the entry names themselves? -/".replace("-/ ", "- / "),
         f"def pageListNatural : Bool := {'true' if page_natural else 'false'}",
         "", "end Ford.Gen.C12", ""]
    text = "\n".join(L)
    common.write_if_changed(common.LEAN / "FordModel" / "Generated" / "C12.lean", text)
    return {"symbolReplacements": sym, "fortranFileOrder": ffo, "containersOrder": containers,
            "unitChainOrder": chain_order, "pageListOrder": pages, "fileIterSorted": fsorted, "countKeyLower": count_lower,
            "usesIterSorted": usorted, "usesIsSet": uset, "writeoutSteps": steps, "outDirs": dirs,
            "nodeIterSites": sites, "serialGraphs": serial, "parallelGraphs": par,
            "incDirsOrdered": inc_ordered, "inheritedIterOrdered": inh_ordered, "hashIterSites": hsites,
            "inheritedIterables": inh_src, "incDirsKept": inc_src,
            "orderDefs": odefs, "sortSites": ssites, "pageListNatural": page_natural, "pageListing": page_src,
            "find_all_files_returns": find_all_files_returns_set()}


if __name__ == "__main__":
    import json
    print(json.dumps(generate(), indent=1))
