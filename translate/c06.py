"""Translator for C06: ties the hand-written parts of lean/FordModel/Use.lean / UseBind.lean to the working
tree.  Everything is derived from what the code MEANS, not from how it is spelled (round 5):

* the three regular expressions the scanners mirror (USE_RE, ONLY_RE, RENAME_RE) are pinned by the
  NORMAL FORM of their parsed pattern (`re._parser`): white space and comments of re.VERBOSE, redundant
  non-capturing groups, `[\\s]` for `\\s`, the case of literals under IGNORECASE and the spelling of the
  flags do not matter; group numbers, alternatives, repeats, classes and assertions do.  The normal form is
  itself a pattern; the translator re-compiles it and compares it with the real object on every string over
  a small alphabet up to a fixed length, so a defect of the normaliser cannot hide a changed expression;
* that `get_used_entities` goes through `self.ONLY_RE` / `self.RENAME_RE` is observed on the running
  function (stand-in object whose two attributes record every use);
* the accessibility tables (which `permission` values `_cleanup` exports; which keywords overwrite the single
  `permission` slot, at which place) are obtained by PROBING the real reader on a stub source file: every
  keyword and every ordered pair of keywords, as attribute and as statement, for variables, types,
  procedures, generic / abstract interfaces and the bodies of generic interfaces;
* the binding scan of `find_used_modules` (project modules before external ones, first match) is obtained by
  calling the real function on stand-in objects; which lists `Project.correlate` hands to it, and that it
  builds one stub per entry of `settings.extra_mods`, is observed on a real (tiny) project.

Writes lean/FordModel/Generated/C06.lean; Props/C06.lean proves that the generated constants are what the
model was written for, so a change of MEANING in /repo changes a proof obligation in the same run.  A probe
that cannot be evaluated raises (counts as "tie broken", never a pass).
"""
from __future__ import annotations

import inspect
import itertools
import re
import types
from pathlib import Path

try:
    import re._parser as _P
except ImportError:  # Python < 3.11
    import sre_parse as _P


def lean_str(s: str) -> str:
    out = []
    for c in s:
        if c == "\\":
            out.append("\\\\")
        elif c == '"':
            out.append('\\"')
        elif c == "\n":
            out.append("\\n")
        elif c == "\t":
            out.append("\\t")
        elif 32 <= ord(c) < 127:
            out.append(c)
        else:
            out.append("\\u{%x}" % ord(c))
    return '"' + "".join(out) + '"'


def lean_chars(s: str) -> str:
    for c in s:
        if not (c.isalnum() or c == "_") or ord(c) > 126:
            raise LookupError(f"unexpected character in keyword {s!r}")
    return "[" + ", ".join(f"'{c}'" for c in s) + "]"


# --------------------------------------------------------------------------
# regular expressions: normal form of the parsed pattern
# --------------------------------------------------------------------------

_SPECIAL = set(".^$*+?{}[]\\|()")
_CATS = {"CATEGORY_SPACE": "\\s", "CATEGORY_NOT_SPACE": "\\S", "CATEGORY_WORD": "\\w", "CATEGORY_NOT_WORD": "\\W",
         "CATEGORY_DIGIT": "\\d", "CATEGORY_NOT_DIGIT": "\\D"}
_LAYOUT_FLAGS = int(re.VERBOSE) | int(re.DEBUG)


def _lit(code: int, icase: bool, in_set: bool = False) -> str:
    c = chr(code)
    if icase and len(c.lower()) == 1:
        c = c.lower()
    if c == "\n":
        return "\\n"
    if c == "\t":
        return "\\t"
    if c == " ":
        return "\\ "  # (so that the normal form means the same with and without re.VERBOSE)
    if c == "#":
        return "\\#"
    if in_set:
        return "\\" + c if c in "\\]^-[" else c
    return "\\" + c if c in _SPECIAL else c


def _flat(items):
    """the items of a sequence with transparent groups dissolved: `(?:...)` without flags only groups"""
    out = []
    for op, av in items:
        if str(op) == "SUBPATTERN" and av[0] is None and not av[1] and not av[2]:
            out += _flat(av[3])
        else:
            out.append((op, av))
    return out


def _set_item(op, av, icase):
    o = str(op)
    if o == "LITERAL":
        return _lit(av, icase, True)
    if o == "CATEGORY":
        if str(av) not in _CATS:
            raise LookupError(f"regex normal form: character category {av} not supported")
        return _CATS[str(av)]
    if o == "RANGE":
        return _lit(av[0], icase, True) + "-" + _lit(av[1], icase, True)
    raise LookupError(f"regex normal form: set item {o} not supported")


def _item(op, av, icase):
    """(text, is one atom)"""
    o = str(op)
    if o == "LITERAL":
        return _lit(av, icase), True
    if o == "NOT_LITERAL":
        return "[^" + _lit(av, icase, True) + "]", True
    if o == "ANY":
        return ".", True
    if o == "IN":
        neg = bool(av) and str(av[0][0]) == "NEGATE"
        body = av[1:] if neg else av
        if not neg and len(body) == 1 and str(body[0][0]) == "CATEGORY":
            return _set_item(*body[0], icase), True
        return "[" + ("^" if neg else "") + "".join(sorted(_set_item(o2, a2, icase) for o2, a2 in body)) + "]", True
    if o in ("MAX_REPEAT", "MIN_REPEAT", "POSSESSIVE_REPEAT"):
        lo, hi, sub = av
        body = _flat(sub)
        text = _seq(body, icase, grouped=False)
        one = len(body) == 1 and _item(*body[0], icase)[1] and str(body[0][0]) not in ("MAX_REPEAT", "MIN_REPEAT", "POSSESSIVE_REPEAT", "AT")
        if not one:
            text = "(?:" + _seq(body, icase, grouped=True) + ")"
        inf = hi == _P.MAXREPEAT
        q = "*" if (lo, inf) == (0, True) else "+" if (lo, inf) == (1, True) else "?" if (lo, hi) == (0, 1) else \
            "{%d,%s}" % (lo, "" if inf else hi) if lo != hi else "{%d}" % lo
        return text + q + {"MAX_REPEAT": "", "MIN_REPEAT": "?", "POSSESSIVE_REPEAT": "+"}[o], False
    if o == "SUBPATTERN":
        g, add, dele, sub = av
        inner = _seq(_flat(sub), icase, grouped=True)
        if g is not None:
            if add or dele:
                raise LookupError("regex normal form: flags on a capturing group not supported")
            return "(" + inner + ")", True
        fl = "".join(ch for ch, bit in (("i", re.I), ("m", re.M), ("s", re.S), ("x", re.X)) if add & bit)
        fd = "".join(ch for ch, bit in (("i", re.I), ("m", re.M), ("s", re.S), ("x", re.X)) if dele & bit)
        return "(?" + fl + ("-" + fd if fd else "") + ":" + inner + ")", True
    if o == "BRANCH":
        return "|".join(_seq(_flat(b), icase, grouped=True) for b in av[1]), False
    if o == "AT":
        at = {"AT_BEGINNING": "^", "AT_END": "$", "AT_BEGINNING_STRING": "\\A", "AT_END_STRING": "\\Z",
              "AT_BOUNDARY": "\\b", "AT_NON_BOUNDARY": "\\B"}
        if str(av) not in at:
            raise LookupError(f"regex normal form: position {av} not supported")
        return at[str(av)], True
    if o in ("ASSERT", "ASSERT_NOT"):
        direction, sub = av
        head = ("(?=" if o == "ASSERT" else "(?!") if direction > 0 else ("(?<=" if o == "ASSERT" else "(?<!")
        return head + _seq(_flat(sub), icase, grouped=True) + ")", True
    if o == "GROUPREF":
        return "\\%d" % av, True
    raise LookupError(f"regex normal form: construct {o} not supported")


def _seq(items, icase, grouped):
    """text of a sequence; `grouped`: the sequence is the whole content of a group (or of the pattern), so an
    alternation needs no parentheses of its own"""
    parts = []
    for op, av in items:
        text, _ = _item(op, av, icase)
        if str(op) == "BRANCH" and not (grouped and len(items) == 1):
            text = "(?:" + text + ")"
        parts.append(text)
    return "".join(parts)


def regex_normal_form(rx: re.Pattern):
    """(normal form of the pattern, flags without the layout-only ones, number of capturing groups)"""
    parsed = _P.parse(rx.pattern, rx.flags)
    flags = int(parsed.state.flags) & ~_LAYOUT_FLAGS
    if parsed.state.groupdict:
        raise LookupError("regex normal form: named groups not supported")
    text = _seq(_flat(list(parsed)), bool(flags & re.I), grouped=True)
    return text, flags, rx.groups


def _same_language(a: re.Pattern, b: re.Pattern, tokens, maxlen: int):
    """first string over `tokens` (up to `maxlen` tokens) on which match / search / sub of the two compiled
    expressions differ, or None"""
    for n in range(maxlen + 1):
        for combo in itertools.product(tokens, repeat=n):
            s = "".join(combo)
            for fn in ("match", "search"):
                x, y = getattr(a, fn)(s), getattr(b, fn)(s)
                if (x is None) != (y is None) or (x is not None and (x.span(), x.groups()) != (y.span(), y.groups())):
                    return s
            if a.sub("", s) != b.sub("", s):
                return s
    return None


RX_TOKENS = {
    "USE_RE": ["use", " ", ",", "::", ":", "intrinsic", "non_", "m", "a=>b", "\t"],
    "ONLY_RE": [",", " ", "only", "ONLY", ":", "a", "=>", "\t", "on"],
    "RENAME_RE": ["a", "_", "1", " ", "=>", "=", ">", ",", "\t"],
}


def regex_tables(sf):
    items = []
    for owner, attr in ((sf.FortranContainer, "USE_RE"), (sf.FortranModule, "ONLY_RE"), (sf.FortranModule, "RENAME_RE")):
        rx = getattr(owner, attr, None)
        if not isinstance(rx, re.Pattern):
            raise LookupError(f"{owner.__name__}.{attr} is not a compiled regex any more")
        text, flags, groups = regex_normal_form(rx)
        try:
            again = re.compile(text, flags)
        except re.error as e:
            raise LookupError(f"{attr}: normal form {text!r} does not compile ({e})")
        if regex_normal_form(again)[0] != text or again.groups != groups:
            raise LookupError(f"{attr}: normal form {text!r} is not stable")
        bad = _same_language(rx, again, RX_TOKENS[attr], 5)
        if bad is not None:
            raise LookupError(f"{attr}: normal form {text!r} and the compiled pattern {rx.pattern!r} differ on {bad!r}")
        items.append((attr, text, flags, groups, rx.pattern))
    return items


# --------------------------------------------------------------------------
# get_used_entities consults self.ONLY_RE / self.RENAME_RE
# --------------------------------------------------------------------------


class _Recording:
    """stands for a compiled pattern and notes that it was consulted"""

    def __init__(self, rx):
        self._rx, self.consulted = rx, []

    def __getattr__(self, name):
        self.consulted.append(name)
        return getattr(self._rx, name)


def check_regex_use(sf):
    M = sf.FortranModule
    only, ren = _Recording(M.ONLY_RE), _Recording(M.RENAME_RE)
    fake = types.SimpleNamespace(ONLY_RE=only, RENAME_RE=ren, pub_procs={}, pub_absints={}, pub_types={},
                                 pub_vars={"b": "B", "c": "C"})
    try:
        res = M.get_used_entities(fake, ", only: a => b")
    except Exception as e:  # noqa
        raise LookupError(f"get_used_entities cannot be run on a stand-in module ({type(e).__name__}: {e})")
    if not only.consulted:
        raise LookupError("get_used_entities no longer consults self.ONLY_RE")
    if not ren.consulted:
        raise LookupError("get_used_entities no longer consults self.RENAME_RE")
    if not (isinstance(res, tuple) and len(res) == 4):
        raise LookupError("get_used_entities no longer returns the four tables (procs, absints, types, vars)")
    return {"ONLY_RE": sorted(set(only.consulted)), "RENAME_RE": sorted(set(ren.consulted))}


# --------------------------------------------------------------------------
# accessibility: probe of the reader + _cleanup on a stub source file
# --------------------------------------------------------------------------

KEYWORDS = ("public", "private", "protected")


def _sequences():
    """every list of one or two distinct access keywords"""
    return [(k,) for k in KEYWORDS] + [p for p in itertools.permutations(KEYWORDS, 2)]


def _probe_source():
    """text of the stub file and the catalogue of its entities:
    [(module, site, name, keyword sequence, in which table the entity is looked up)]"""
    code = {k: k[:3] for k in KEYWORDS}  # pub / pri / pro
    cat, text = [], []
    for default in ("public", "private"):
        mod = f"accprobe_{default}"
        spec, decls, contains = [], [], []
        if default == "private":
            spec.append("  private")

        def stmts(name, seq, first=0):
            return [f"  {k} :: {name}" for k in seq[first:]]

        n = 0
        # variables: keywords in the attribute list (a), in statements (s), or first one a then s
        for seq in _sequences():
            for place in (("a",), ("s",)) if len(seq) == 1 else (("a", "a"), ("a", "s"), ("s", "s")):
                n += 1
                name = f"v{n}_" + "_".join(code[k] + p for k, p in zip(seq, place))
                inline = "".join(f", {k}" for k, p in zip(seq, place) if p == "a")
                decls.append(f"  integer{inline} :: {name}")
                spec += [f"  {k} :: {name}" for k, p in zip(seq, place) if p == "s"]
                site = "variable/" + ("attribute" if place[-1] == "a" else "statement")
                cat.append((mod, site, name, seq, "variables"))
        decls.append("  integer :: v_plain")
        cat.append((mod, "variable/none", "v_plain", (), "variables"))
        # the other kinds: access statements only (the one place FORD shares between all of them)
        for kind, table in (("type", "types"), ("function", "functions"), ("subroutine", "subroutines"),
                            ("interface", "interfaces"), ("absinterface", "absinterfaces"), ("generic-body", None)):
            for seq in [()] + _sequences():
                n += 1
                name = f"{kind[0]}{n}_" + ("_".join(code[k] for k in seq) or "plain")
                spec += stmts(name, seq)
                if kind == "type":
                    decls += [f"  type :: {name}", "    integer :: c", f"  end type {name}"]
                elif kind == "function":
                    contains += [f"  integer function {name}()", f"    {name} = 1", f"  end function {name}"]
                elif kind == "subroutine":
                    contains += [f"  subroutine {name}()", f"  end subroutine {name}"]
                elif kind == "interface":
                    decls += [f"  interface {name}", f"    subroutine {name}_body(x)", "      integer :: x",
                              f"    end subroutine {name}_body", "  end interface"]
                elif kind == "absinterface":
                    decls += ["  abstract interface", f"    subroutine {name}()", f"    end subroutine {name}", "  end interface"]
                else:
                    decls += [f"  interface gen_{name}", f"    subroutine {name}(x)", "      integer :: x",
                              f"    end subroutine {name}", "  end interface"]
                cat.append((mod, kind + "/" + ("statement" if seq else "none"), name, seq, table))
        text += [f"module {mod}", "  implicit none"] + spec + decls + ["contains"] + contains + [f"end module {mod}", ""]
    return "\n".join(text), cat


def access_tables(common, sf):
    """(exported permission words, {site: keywords that overwrite the slot there}) observed on the real
    reader: `FortranSourceFile` of the stub file (parsing runs `process_attribs` and `_cleanup`)."""
    from ford.settings import ProjectSettings

    text, cat = _probe_source()
    with common.scratch_dir("ford-c06-probe-") as d:
        f = d / "accprobe.f90"
        f.write_text(text)
        try:
            with common.quiet():
                src = sf.FortranSourceFile(str(f), ProjectSettings(preprocess=False, dbg=False, warn=False, quiet=True))
        except Exception as e:  # noqa
            raise LookupError(f"the accessibility probe file cannot be read ({type(e).__name__}: {e})")
    mods = {m.name.lower(): m for m in src.modules}
    slot = {}  # (module, name) -> word in the slot
    verdict = {}  # permission word -> set of (exported?) observations
    for modname, site, name, seq, table in cat:
        m = mods.get(modname)
        if m is None:
            raise LookupError(f"accessibility probe: module {modname} was not read")
        if table is None:  # body of a generic interface
            objs = [r for i in m.interfaces for r in getattr(i, "routines", []) if r.name.lower() == name]
        else:
            objs = [o for o in getattr(m, table) if o.name.lower() == name]
        if len(objs) != 1:
            raise LookupError(f"accessibility probe: {site} {name} of {modname} not found among {table or 'interface bodies'}")
        o = objs[0]
        perm = getattr(o, "permission", None)
        if not isinstance(perm, str):
            raise LookupError(f"accessibility probe: {site} {name} has no permission word")
        slot[modname, name] = perm.lower()
        if table is not None:
            pub = {"variables": m.pub_vars, "types": m.pub_types, "absinterfaces": m.pub_absints}.get(table, m.pub_procs)
            exported = pub.get(name) is o
            verdict.setdefault(perm.lower(), set()).add(exported)
    mixed = sorted(w for w, v in verdict.items() if len(v) > 1)
    if mixed:
        raise LookupError(f"accessibility probe: whether an entity is exported is not decided by its permission alone ({mixed})")
    unknown = sorted(set(verdict) - set(KEYWORDS))
    if unknown:
        raise LookupError(f"accessibility probe: permission words outside PUBLIC / PRIVATE / PROTECTED: {unknown}")
    if set(verdict) != set(KEYWORDS):
        raise LookupError(f"accessibility probe: permission words never met: {sorted(set(KEYWORDS) - set(verdict))}")
    exported_words = [w for w in KEYWORDS if verdict[w] == {True}]
    # the slot starts as the default accessibility of the module
    for modname, site, name, seq, _ in cat:
        if not seq and slot[modname, name] != modname.split("_")[1]:
            raise LookupError(f"accessibility probe: {site} {name} of {modname} does not start from the module default")
    # per site: the keywords that end up in the slot when given alone AND when given after any other one
    sites = {}
    for modname, site, name, seq, _ in cat:
        if seq:
            sites.setdefault(site, {}).setdefault(seq[-1], []).append(slot[modname, name] == seq[-1])
    writes = []
    for site in sorted(sites):
        writes.append((site, [k for k in KEYWORDS if sites[site].get(k) and all(sites[site][k])]))
    return exported_words, writes


# --------------------------------------------------------------------------
# binding: probe of find_used_modules and of what Project.correlate hands to it
# --------------------------------------------------------------------------


def binding_tables(common, fp, sf):
    """(roles of the candidate lists in the order the scan tries them, the attributes of Project passed for
    them, first match wins?) - observed, not read from the source."""
    from ford.settings import ProjectSettings

    orig = fp.find_used_modules
    sig = inspect.signature(orig)
    calls = []

    def spy(*a, **kw):
        try:
            calls.append(dict(sig.bind(*a, **kw).arguments))
        except TypeError:
            pass
        return orig(*a, **kw)

    with common.scratch_dir("ford-c06-bind-") as d:
        f = d / "bindprobe.f90"
        f.write_text("module bindprobe_a\n  integer :: v\nend module bindprobe_a\n"
                     "module bindprobe_b\n  use bindprobe_a\nend module bindprobe_b\n")
        sf.namelist = sf.NameSelector()
        orig_find = fp.find_all_files
        fp.find_all_files = lambda settings: [f]
        fp.find_used_modules = spy
        try:
            with common.quiet():
                settings = ProjectSettings(src_dir=[d], preprocess=False, dbg=False, warn=False, quiet=True, graph=False,
                                           search=False, incl_src=False, extra_mods={"bindprobe_x": "https://example.org/x"})
                project = fp.Project(settings)
                project.correlate()
        except Exception as e:  # noqa
            raise LookupError(f"binding probe: the stub project cannot be correlated ({type(e).__name__}: {e})")
        finally:
            fp.find_all_files = orig_find
            fp.find_used_modules = orig
    top = [c for c in calls if any(v is m for m in project.modules for v in c.values())]
    if not top:
        raise LookupError("binding probe: Project.correlate no longer calls find_used_modules for the project's modules")
    stub_names = [str(m.name) for m in project.extModules]
    wanted = list(settings.extra_mods)
    if stub_names[:len(wanted)] != wanted or "bindprobe_x" not in stub_names:
        raise LookupError("binding probe: Project.correlate no longer builds one ExternalModule per entry of settings.extra_mods")

    def attr_of(value):
        """name of the attribute of the project that IS the list passed (or holds the very same objects)"""
        if not isinstance(value, list):
            return None
        same = [a for a, v in vars(project).items() if v is value]
        if not same and value:
            same = [a for a, v in vars(project).items() if isinstance(v, list) and len(v) == len(value)
                    and all(x is y for x, y in zip(v, value))]
        return sorted(same)[0] if same else None

    passed = {p: attr_of(v) for p, v in top[0].items()}
    # the parameter an entity is passed for, and the candidate lists by what they hold
    ent_par = [p for p, v in top[0].items() if any(v is m for m in project.modules)]
    mod_par = [p for p, v in top[0].items() if isinstance(v, list) and v and all(any(x is m for m in project.modules) for x in v)]
    ext_par = [p for p, v in top[0].items() if isinstance(v, list) and v and all(any(x is m for m in project.extModules) for x in v)]
    if len(ent_par) != 1 or len(mod_par) != 1 or len(ext_par) != 1:
        raise LookupError("binding probe: cannot tell which arguments of find_used_modules are the entity, the project's "
                          "modules and the external modules")
    rest = [p for p in sig.parameters if p not in (ent_par[0], mod_par[0], ext_par[0])]

    def bound(mods, exts, name="Probe_Name"):
        ent = types.SimpleNamespace(uses=[[name, ""]], routines=[], interfaces=[], absinterfaces=[])
        kw = {ent_par[0]: ent, mod_par[0]: mods, ext_par[0]: exts}
        kw.update({p: [] for p in rest})
        try:
            orig(**kw)
        except Exception as e:  # noqa
            raise LookupError(f"binding probe: find_used_modules cannot be run on stand-in objects ({type(e).__name__}: {e})")
        return ent.uses[0][0]

    def cand(name, tag):
        return types.SimpleNamespace(name=name, tag=tag)

    p1, p2, e1, e2 = cand("probe_name", "p1"), cand("PROBE_NAME", "p2"), cand("probe_NAME", "e1"), cand("Probe_name", "e2")
    only_p, only_e = bound([cand("other", "o"), p1], []), bound([], [cand("other", "o"), e1])
    if only_p is not p1 or only_e is not e1:
        raise LookupError("binding probe: a USE is no longer bound to the module / external module of that name (case-insensitively)")
    if bound([cand("other", "o")], [cand("another", "o")]) != "Probe_Name":
        raise LookupError("binding probe: a USE of an unknown module no longer keeps its name")
    both = bound([p1], [e1])
    if both is p1:
        roles = [("modules", mod_par[0]), ("external_modules", ext_par[0])]
    elif both is e1:
        roles = [("external_modules", ext_par[0]), ("modules", mod_par[0])]
    else:
        raise LookupError("binding probe: with a project module and an external module of one name the USE is bound to neither")
    firsts = {bound([p1, p2], []) is p1, bound([], [e1, e2]) is e1}
    lasts = {bound([p1, p2], []) is p2, bound([], [e1, e2]) is e2}
    if firsts == {True}:
        first_match = True
    elif lasts == {True}:
        first_match = False
    else:
        raise LookupError("binding probe: which of several candidates of one name is chosen follows no single rule")
    attrs = [passed[par] for _, par in roles]
    if None in attrs:
        raise LookupError("binding probe: the candidate lists passed by Project.correlate are not attributes of the project")
    return [r for r, _ in roles], attrs, first_match, stub_names


def external_tables(common, fp, sf):
    """(sorted names of the dict-valued attributes of a module that `obj2dict` writes and `dict2obj` reads back as
    tables, is an entry built from ITS OWN item and stored under ITS key?, is an entity that is external in the
    exporting project written as null and skipped?) - observed by sending a stub project through the real
    `obj2dict` / JSON / `dict2obj`, not read from the source."""
    import json
    import types as _types
    from ford.settings import ProjectSettings
    import ford.external_project as ep

    with common.scratch_dir("ford-c06-ext-") as d:
        f = d / "extprobe.f90"
        f.write_text("module extprobe_o\n  implicit none\n  type :: t\n    integer :: c\n  end type t\n  integer :: v\n"
                     "  abstract interface\n    subroutine a()\n    end subroutine a\n  end interface\n"
                     "contains\n  subroutine s()\n  end subroutine s\n  subroutine gone()\n  end subroutine gone\nend module extprobe_o\n"
                     "module extprobe_w\n  use extprobe_o, only: x => s, xt => t, xv => v, xa => a, gone\n  implicit none\n"
                     "  type :: t\n    integer :: c\n  end type t\n  integer :: v\n"
                     "contains\n  subroutine s()\n  end subroutine s\nend module extprobe_w\n")
        sf.namelist = sf.NameSelector()
        orig_find = fp.find_all_files
        fp.find_all_files = lambda settings: [f]
        try:
            with common.quiet():
                settings = ProjectSettings(src_dir=[d], preprocess=False, dbg=False, warn=False, quiet=True, graph=False,
                                           search=False, incl_src=False, display=["public", "protected", "private"])
                project = fp.Project(settings)
                project.correlate()
                mods = {m.name.lower(): m for m in project.modules}
                o, w = mods["extprobe_o"], mods["extprobe_w"]
                url = {(m.name.lower(), lst, e.name.lower()): str(e.get_url()) for m in (o, w)
                       for lst in ("subroutines", "types", "variables", "absinterfaces") for e in getattr(m, lst)}
                # an entity that the exporting project itself holds as external
                next(e for e in o.subroutines if e.name.lower() == "gone").external_url = "https://example.org/gone"
                dumped = json.loads(json.dumps([ep.obj2dict(m) for m in project.modules]))
        except Exception as e:  # noqa
            raise LookupError(f"external probe: the stub project cannot be externalized ({type(e).__name__}: {e})")
        finally:
            fp.find_all_files = orig_find
        jw = next((x for x in dumped if str(x.get("name", "")).lower() == "extprobe_w"), None)
        if jw is None:
            raise LookupError("external probe: obj2dict no longer writes a module under its name")
        tables = sorted(k for k, v in jw.items() if isinstance(v, dict))
        host = _types.SimpleNamespace(extModules=[], extProcedures=[], extTypes=[], extVariables=[])
        try:
            with common.quiet():
                loaded = ep.dict2obj(host, jw, d)
        except Exception as e:  # noqa
            raise LookupError(f"external probe: dict2obj cannot read what obj2dict wrote ({type(e).__name__}: {e})")

        def at(table, key):
            x = getattr(loaded, table, {}).get(key)
            return None if x is None else str(getattr(x, "external_url", "")).replace(str(d) + "/", "")

        want = {("pub_procs", "x"): url["extprobe_o", "subroutines", "s"], ("pub_procs", "s"): url["extprobe_w", "subroutines", "s"],
                ("pub_types", "xt"): url["extprobe_o", "types", "t"], ("pub_types", "t"): url["extprobe_w", "types", "t"],
                ("pub_vars", "xv"): url["extprobe_o", "variables", "v"], ("pub_vars", "v"): url["extprobe_w", "variables", "v"],
                ("pub_absints", "xa"): url["extprobe_o", "absinterfaces", "a"]}
        from_item = all(at(t, k) == u for (t, k), u in want.items())
        dropped = jw.get("pub_procs", {}).get("gone", "absent") is None and at("pub_procs", "gone") is None
    return tables, from_item, dropped


def translate(common):
    common.import_ford()
    import ford.fortran_project as fp
    import ford.settings as fs
    import ford.sourceform as sf

    rx = regex_tables(sf)
    consulted = check_regex_use(sf)
    lines = ["/- GENERATED by translate/c06.py from the working tree (ford/sourceform.py, ford/fortran_project.py,",
             "   ford/settings.py) - do not edit -/",
             "namespace Ford.Generated.C06", ""]
    for attr, text, flags, groups, pattern in rx:
        name = attr.split("_")[0].lower() + "Re"
        lines.append(f"/-- normal form of the parsed pattern of `{attr}` (layout, redundant groups and the case of literals")
        lines.append("    under IGNORECASE removed; re-compiled and compared with the real object by the translator) -/")
        lines.append(f"def {name}Src : String := {lean_str(text)}")
        lines.append("/-- flags without the layout-only ones (VERBOSE, DEBUG) -/")
        lines.append(f"def {name}Flags : Nat := {flags}")
        lines.append(f"def {name}Groups : Nat := {groups}")
    exported, writes = access_tables(common, sf)
    lines += ["", "/-- the `permission` words with which `FortranModule._cleanup` puts an entity into a `pub_*` table",
              "    (observed for every kind of entity, default-public and default-private module) -/",
              "def exportedPermissions : List (List Char) := [" + ", ".join(lean_chars(w) for w in exported) + "]",
              "", "/-- per place where the reader meets an access keyword (" + ", ".join(s for s, _ in writes) + "):",
              "    the keywords that end up in the one `permission` slot there, alone and after any other keyword -/",
              "def slotKeywordLists : List (List (List Char)) := ["
              + ",\n  ".join("[" + ", ".join(lean_chars(k) for k in kws) + "]" for _, kws in writes) + "]"]
    roles, attrs, first_match, stubs = binding_tables(common, fp, sf)
    builtin = list(fs.ProjectSettings().extra_mods)
    if not builtin:
        raise LookupError("ProjectSettings().extra_mods has no built-in entries any more")
    lines += ["", "/-- the candidate lists `find_used_modules` scans for the module of a USE statement, in the order it tries",
              "    them (observed on stand-in objects) -/",
              "def bindingChain : List (List Char) := [" + ", ".join(lean_chars(w) for w in roles) + "]",
              "/-- attributes of `Project` passed for them by `Project.correlate` (observed on a stub project) -/",
              "def bindingChainArgs : List (List Char) := [" + ", ".join(lean_chars(w) for w in attrs) + "]",
              "/-- of several candidates with the name of the USE statement the first one is taken -/",
              f"def bindingFirstMatch : Bool := {'true' if first_match else 'false'}",
              "/-- default keys of `ProjectSettings().extra_mods` (every project gets one empty ExternalModule for each) -/",
              "def intrinsicModNames : List (List Char) := [" + ",\n  ".join(lean_chars(w) for w in builtin) + "]"]
    ext_tabs, ext_item, ext_drop = external_tables(common, fp, sf)
    lines += ["", "/-- dict-valued attributes of a module that `external_project.obj2dict` writes and `dict2obj` reads back as",
              "    tables of entities (sorted; observed on a stub project sent through both) -/",
              "def externalExportTables : List (List Char) := [" + ", ".join(lean_chars(w) for w in ext_tabs) + "]",
              "/-- a loaded table holds, under each key, the object built from THAT entry's item (also when the module owns",
              "    an entity with the item's own name) -/",
              f"def externalEntryFromItsItem : Bool := {'true' if ext_item else 'false'}",
              "/-- an entity that is external in the exporting project is written as null and skipped when read -/",
              f"def externalOfExternalDropped : Bool := {'true' if ext_drop else 'false'}"]
    lines += ["", "end Ford.Generated.C06", ""]
    common.write_if_changed(common.LEAN / "FordModel" / "Generated" / "C06.lean", "\n".join(lines))
    return {"regex": {a: (t, f, g) for a, t, f, g, _ in rx}, "regex_consulted": consulted, "exported": exported,
            "slot_writes": writes, "binding": (roles, attrs, first_match), "intrinsic_mods": builtin,
            "external_tables": (ext_tabs, ext_item, ext_drop)}
