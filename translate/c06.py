"""Translator for C06: pins the source text of the three regular expressions the
hand-written scanners of lean/FordModel/Use.lean mirror (USE_RE, ONLY_RE, RENAME_RE), and the
string tables of the accessibility mechanism: the list of `permission` values that
`FortranModule._cleanup` exports, and the keyword lists whose members overwrite the single
`permission` slot of a declared entity (`line_to_variables`, `process_attribs`).

Writes lean/FordModel/Generated/C06.lean; Props/C06.lean proves (by `decide`) that the
generated constants are the patterns the scanners were written for, so an edit of one of
the regexes in /repo changes a proof obligation in the same run.
"""
from __future__ import annotations

import re
from pathlib import Path


def lean_str(s: str) -> str:
    out = []
    for c in s:
        if c == "\\":
            out.append("\\\\")
        elif c == '"':
            out.append('\\"')
        elif c == "\n":
            out.append("\\n")
        elif c == "\t":
            out.append("\\t")
        elif 32 <= ord(c) < 127:
            out.append(c)
        else:
            out.append("\\u{%x}" % ord(c))
    return '"' + "".join(out) + '"'


def lean_chars(s: str) -> str:
    for c in s:
        if not (c.isalnum() or c == "_") or ord(c) > 126:
            raise LookupError(f"unexpected character in keyword {s!r}")
    return "[" + ", ".join(f"'{c}'" for c in s) + "]"


def _str_list(node):
    import ast

    if isinstance(node, (ast.List, ast.Tuple)) and node.elts and all(
            isinstance(e, ast.Constant) and isinstance(e.value, str) for e in node.elts):
        return [e.value for e in node.elts]
    return None


def _find_def(tree, path):
    """the (nested) function / class definition named by `path`"""
    import ast

    node = tree
    for name in path:
        for ch in ast.walk(node):
            if ch is not node and isinstance(ch, (ast.FunctionDef, ast.ClassDef)) and ch.name == name:
                node = ch
                break
        else:
            raise LookupError(f"{'.'.join(path)}: no definition of {name!r} any more")
    return node


def access_tables(source: str):
    """(exported permissions, [keyword list of every `if x in [...]: <...>permission = x`])"""
    import ast

    tree = ast.parse(source)
    # 1. FortranModule._cleanup.should_be_public: `return item.permission in [<strings>]`
    f = _find_def(tree, ["FortranModule", "_cleanup", "should_be_public"])
    body = [n for n in f.body if not (isinstance(n, ast.Expr) and isinstance(n.value, ast.Constant))]
    exported = None
    if len(body) == 1 and isinstance(body[0], ast.Return) and isinstance(body[0].value, ast.Compare):
        c = body[0].value
        if (len(c.ops) == 1 and isinstance(c.ops[0], ast.In) and isinstance(c.left, ast.Attribute)
                and c.left.attr == "permission" and isinstance(c.left.value, ast.Name)
                and c.left.value.id == f.args.args[0].arg):
            exported = _str_list(c.comparators[0])
    if exported is None:
        raise LookupError("FortranModule._cleanup.should_be_public is no longer `return item.permission in [...]`")
    # 2. every place that writes an access keyword into the slot of a declared entity
    writes = []
    for path in (["line_to_variables"], ["FortranCodeUnit", "process_attribs"]):
        fn = _find_def(tree, path)
        found = 0
        for n in ast.walk(fn):
            if not (isinstance(n, ast.If) and isinstance(n.test, ast.Compare) and len(n.test.ops) == 1
                    and isinstance(n.test.ops[0], ast.In) and isinstance(n.test.left, ast.Name)):
                continue
            kws = _str_list(n.test.comparators[0])
            if kws is None or len(n.body) != 1 or not isinstance(n.body[0], ast.Assign):
                continue
            a = n.body[0]
            tgt = a.targets[0]
            tname = tgt.attr if isinstance(tgt, ast.Attribute) else tgt.id if isinstance(tgt, ast.Name) else ""
            if tname == "permission" and isinstance(a.value, ast.Name) and a.value.id == n.test.left.id:
                writes.append((".".join(path), kws))
                found += 1
        if not found:
            raise LookupError(f"{'.'.join(path)}: no `if x in [...]: permission = x` any more")
    return exported, writes


def translate(common):
    common.import_ford()
    import ford.sourceform as sf

    items = []
    for owner, attr in ((sf.FortranContainer, "USE_RE"), (sf.FortranModule, "ONLY_RE"), (sf.FortranModule, "RENAME_RE")):
        rx = getattr(owner, attr, None)
        if not isinstance(rx, re.Pattern):
            raise LookupError(f"{owner.__name__}.{attr} is not a compiled regex any more")
        items.append((attr, rx.pattern, int(rx.flags)))
    # the module-level dispatch on `use_specs` must still go through these two attributes
    import inspect

    src = inspect.getsource(sf.FortranModule.get_used_entities)
    for needle in ("self.ONLY_RE.match", "self.ONLY_RE.sub", "self.RENAME_RE.search", '.split(",")'):
        if needle not in src:
            raise LookupError(f"get_used_entities no longer contains {needle!r}")
    lines = ["/- GENERATED by translate/c06.py from ford/sourceform.py - do not edit -/",
             "namespace Ford.Generated.C06", ""]
    for attr, pat, flags in items:
        name = attr.split("_")[0].lower() + "Re"
        lines.append(f"def {name}Src : String := {lean_str(pat)}")
        lines.append(f"def {name}Flags : Nat := {flags}")
    exported, writes = access_tables(Path(sf.__file__).read_text())
    lines += ["", "/-- `FortranModule._cleanup.should_be_public`: `item.permission in <this list>` -/",
              "def exportedPermissions : List (List Char) := [" + ", ".join(lean_chars(w) for w in exported) + "]",
              "", "/-- keyword lists of the statements `if x in <list>: ...permission = x` in "
              + ", ".join(sorted({w for w, _ in writes})) + " -/",
              "def slotKeywordLists : List (List (List Char)) := ["
              + ",\n  ".join("[" + ", ".join(lean_chars(k) for k in kws) + "]" for _, kws in writes) + "]"]
    lines += ["", "end Ford.Generated.C06", ""]
    common.write_if_changed(common.LEAN / "FordModel" / "Generated" / "C06.lean", "\n".join(lines))
    return {"regex": {a: (p, f) for a, p, f in items}, "exported": exported, "slot_writes": writes}
