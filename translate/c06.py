"""Translator for C06: pins the source text of the three regular expressions the
hand-written scanners of lean/FordModel/Use.lean mirror (USE_RE, ONLY_RE, RENAME_RE), and the
string tables of the accessibility mechanism: the list of `permission` values that
`FortranModule._cleanup` exports, and the keyword lists whose members overwrite the single
`permission` slot of a declared entity (`line_to_variables`, `process_attribs`).

Writes lean/FordModel/Generated/C06.lean; Props/C06.lean proves (by `decide`) that the
generated constants are the patterns the scanners were written for, so an edit of one of
the regexes in /repo changes a proof obligation in the same run.
"""
from __future__ import annotations

import re
from pathlib import Path


def lean_str(s: str) -> str:
    out = []
    for c in s:
        if c == "\\":
            out.append("\\\\")
        elif c == '"':
            out.append('\\"')
        elif c == "\n":
            out.append("\\n")
        elif c == "\t":
            out.append("\\t")
        elif 32 <= ord(c) < 127:
            out.append(c)
        else:
            out.append("\\u{%x}" % ord(c))
    return '"' + "".join(out) + '"'


def lean_chars(s: str) -> str:
    for c in s:
        if not (c.isalnum() or c == "_") or ord(c) > 126:
            raise LookupError(f"unexpected character in keyword {s!r}")
    return "[" + ", ".join(f"'{c}'" for c in s) + "]"


def _str_list(node):
    import ast

    if isinstance(node, (ast.List, ast.Tuple)) and node.elts and all(
            isinstance(e, ast.Constant) and isinstance(e.value, str) for e in node.elts):
        return [e.value for e in node.elts]
    return None


def _find_def(tree, path):
    """the (nested) function / class definition named by `path`"""
    import ast

    node = tree
    for name in path:
        for ch in ast.walk(node):
            if ch is not node and isinstance(ch, (ast.FunctionDef, ast.ClassDef)) and ch.name == name:
                node = ch
                break
        else:
            raise LookupError(f"{'.'.join(path)}: no definition of {name!r} any more")
    return node


def access_tables(source: str):
    """(exported permissions, [keyword list of every `if x in [...]: <...>permission = x`])"""
    import ast

    tree = ast.parse(source)
    # 1. FortranModule._cleanup.should_be_public: `return item.permission in [<strings>]`
    f = _find_def(tree, ["FortranModule", "_cleanup", "should_be_public"])
    body = [n for n in f.body if not (isinstance(n, ast.Expr) and isinstance(n.value, ast.Constant))]
    exported = None
    if len(body) == 1 and isinstance(body[0], ast.Return) and isinstance(body[0].value, ast.Compare):
        c = body[0].value
        if (len(c.ops) == 1 and isinstance(c.ops[0], ast.In) and isinstance(c.left, ast.Attribute)
                and c.left.attr == "permission" and isinstance(c.left.value, ast.Name)
                and c.left.value.id == f.args.args[0].arg):
            exported = _str_list(c.comparators[0])
    if exported is None:
        raise LookupError("FortranModule._cleanup.should_be_public is no longer `return item.permission in [...]`")
    # 2. every place that writes an access keyword into the slot of a declared entity
    writes = []
    for path in (["line_to_variables"], ["FortranCodeUnit", "process_attribs"]):
        fn = _find_def(tree, path)
        found = 0
        for n in ast.walk(fn):
            if not (isinstance(n, ast.If) and isinstance(n.test, ast.Compare) and len(n.test.ops) == 1
                    and isinstance(n.test.ops[0], ast.In) and isinstance(n.test.left, ast.Name)):
                continue
            kws = _str_list(n.test.comparators[0])
            if kws is None or len(n.body) != 1 or not isinstance(n.body[0], ast.Assign):
                continue
            a = n.body[0]
            tgt = a.targets[0]
            tname = tgt.attr if isinstance(tgt, ast.Attribute) else tgt.id if isinstance(tgt, ast.Name) else ""
            if tname == "permission" and isinstance(a.value, ast.Name) and a.value.id == n.test.left.id:
                writes.append((".".join(path), kws))
                found += 1
        if not found:
            raise LookupError(f"{'.'.join(path)}: no `if x in [...]: permission = x` any more")
    return exported, writes


def binding_tables(project_source: str):
    """The scan of `find_used_modules` that turns the module name of a USE statement into a module
    object, read from the AST:
      for dependency in entity.uses:
          ...
          for candidate in chain(<A>, <B>):
              if <name> == candidate.name.lower():
                  dependency[0] = candidate
                  break
    -> ([A, B] as parameter names, [attributes of Project passed for A and B in Project.correlate],
        first_match: the assignment is followed by `break`).  Also requires that Project.correlate still
    builds one ExternalModule per entry of settings.extra_mods."""
    import ast

    tree = ast.parse(project_source)
    fn = _find_def(tree, ["find_used_modules"])
    params = [a.arg for a in fn.args.args]
    scan = None
    for outer in ast.walk(fn):
        if not (isinstance(outer, ast.For) and isinstance(outer.iter, ast.Attribute) and outer.iter.attr == "uses"
                and isinstance(outer.target, ast.Name)):
            continue
        dep = outer.target.id
        for inner in ast.walk(outer):
            if not (isinstance(inner, ast.For) and inner is not outer and isinstance(inner.iter, ast.Call)
                    and isinstance(inner.iter.func, ast.Name) and inner.iter.func.id == "chain"
                    and isinstance(inner.target, ast.Name)
                    and all(isinstance(a, ast.Name) for a in inner.iter.args)):
                continue
            cand = inner.target.id
            if len(inner.body) != 1 or not isinstance(inner.body[0], ast.If) or inner.body[0].orelse:
                continue
            test, body = inner.body[0].test, inner.body[0].body
            lowered = f"{cand}.name.lower()"
            if not (isinstance(test, ast.Compare) and len(test.ops) == 1 and isinstance(test.ops[0], ast.Eq)
                    and lowered in (ast.unparse(test.left), ast.unparse(test.comparators[0]))):
                continue
            if not body or not isinstance(body[0], ast.Assign) or ast.unparse(body[0].targets[0]) != f"{dep}[0]" \
                    or ast.unparse(body[0].value) != cand:
                continue
            other = test.comparators[0] if ast.unparse(test.left) == lowered else test.left
            # the other side must be the lower-cased name of the statement
            lowered_dep = any(isinstance(n, ast.Assign) and isinstance(n.targets[0], ast.Name)
                              and isinstance(other, ast.Name) and n.targets[0].id == other.id
                              and ast.unparse(n.value) == f"{dep}[0].lower()" for n in ast.walk(outer)) \
                or ast.unparse(other) == f"{dep}[0].lower()"
            if not lowered_dep:
                continue
            scan = ([a.id for a in inner.iter.args], len(body) == 2 and isinstance(body[1], ast.Break))
    if scan is None:
        raise LookupError("find_used_modules no longer binds a USE by `for candidate in chain(...): "
                          "if <lower name> == candidate.name.lower(): dependency[0] = candidate`")
    chain_params, first_match = scan
    for a in chain_params:
        if a not in params:
            raise LookupError(f"find_used_modules: chain argument {a!r} is not a parameter")
    # Project.correlate: which attributes are passed, and the stubs made from settings.extra_mods
    corr = _find_def(tree, ["Project", "correlate"])
    passed = None
    for n in ast.walk(corr):
        if isinstance(n, ast.Call) and isinstance(n.func, ast.Name) and n.func.id == "find_used_modules" \
                and len(n.args) == len(params) and not n.keywords:
            args = [a.attr if isinstance(a, ast.Attribute) and isinstance(a.value, ast.Name) and a.value.id == "self"
                    else None for a in n.args]
            passed = [args[params.index(a)] for a in chain_params]
    if passed is None or None in passed:
        raise LookupError("Project.correlate no longer calls find_used_modules(entity, self.<...>, ...) positionally")
    stubs = False
    for n in ast.walk(corr):
        if isinstance(n, (ast.ListComp, ast.GeneratorExp)) and isinstance(n.elt, ast.Call) \
                and isinstance(n.elt.func, ast.Name) and n.elt.func.id == "ExternalModule" \
                and ast.unparse(n.generators[0].iter).endswith("settings.extra_mods.items()"):
            stubs = True
    if not stubs:
        raise LookupError("Project.correlate no longer builds ExternalModule(name, url) for settings.extra_mods.items()")
    return chain_params, passed, first_match


def translate(common):
    common.import_ford()
    import ford.sourceform as sf

    items = []
    for owner, attr in ((sf.FortranContainer, "USE_RE"), (sf.FortranModule, "ONLY_RE"), (sf.FortranModule, "RENAME_RE")):
        rx = getattr(owner, attr, None)
        if not isinstance(rx, re.Pattern):
            raise LookupError(f"{owner.__name__}.{attr} is not a compiled regex any more")
        items.append((attr, rx.pattern, int(rx.flags)))
    # the module-level dispatch on `use_specs` must still go through these two attributes
    import inspect

    src = inspect.getsource(sf.FortranModule.get_used_entities)
    for needle in ("self.ONLY_RE.match", "self.ONLY_RE.sub", "self.RENAME_RE.search", '.split(",")'):
        if needle not in src:
            raise LookupError(f"get_used_entities no longer contains {needle!r}")
    lines = ["/- GENERATED by translate/c06.py from ford/sourceform.py - do not edit -/",
             "namespace Ford.Generated.C06", ""]
    for attr, pat, flags in items:
        name = attr.split("_")[0].lower() + "Re"
        lines.append(f"def {name}Src : String := {lean_str(pat)}")
        lines.append(f"def {name}Flags : Nat := {flags}")
    exported, writes = access_tables(Path(sf.__file__).read_text())
    lines += ["", "/-- `FortranModule._cleanup.should_be_public`: `item.permission in <this list>` -/",
              "def exportedPermissions : List (List Char) := [" + ", ".join(lean_chars(w) for w in exported) + "]",
              "", "/-- keyword lists of the statements `if x in <list>: ...permission = x` in "
              + ", ".join(sorted({w for w, _ in writes})) + " -/",
              "def slotKeywordLists : List (List (List Char)) := ["
              + ",\n  ".join("[" + ", ".join(lean_chars(k) for k in kws) + "]" for _, kws in writes) + "]"]
    import ford.fortran_project as fp
    import ford.settings as fs

    chain_params, chain_attrs, first_match = binding_tables(Path(fp.__file__).read_text())
    intrinsic = list(getattr(fs, "INTRINSIC_MODS", {}) or {})
    if not intrinsic:
        raise LookupError("ford.settings.INTRINSIC_MODS is gone or empty")
    defaults = list(fs.ProjectSettings().extra_mods)
    if defaults[:len(intrinsic)] != intrinsic:
        raise LookupError("ProjectSettings().extra_mods no longer starts with the entries of INTRINSIC_MODS")
    lines += ["", "/-- `for candidate in chain(<these parameters>)` in `find_used_modules` -/",
              "def bindingChain : List (List Char) := [" + ", ".join(lean_chars(w) for w in chain_params) + "]",
              "/-- attributes of `Project` passed for them by `Project.correlate` -/",
              "def bindingChainArgs : List (List Char) := [" + ", ".join(lean_chars(w) for w in chain_attrs) + "]",
              "/-- `dependency[0] = candidate` is followed by `break` -/",
              f"def bindingFirstMatch : Bool := {'true' if first_match else 'false'}",
              "/-- keys of `ford.settings.INTRINSIC_MODS` (every project gets one empty ExternalModule for each) -/",
              "def intrinsicModNames : List (List Char) := [" + ",\n  ".join(lean_chars(w) for w in intrinsic) + "]"]
    lines += ["", "end Ford.Generated.C06", ""]
    common.write_if_changed(common.LEAN / "FordModel" / "Generated" / "C06.lean", "\n".join(lines))
    return {"regex": {a: (p, f) for a, p, f in items}, "exported": exported, "slot_writes": writes,
            "binding": (chain_params, chain_attrs, first_match), "intrinsic_mods": intrinsic}
