"""Behavioural probes for C05 (round 5): the tables of `Generated/C05.lean` that record a *decision the code makes*
are derived by running the real functions on real objects of a small probe project (parsed by the FORD under
test) whose child lists are replaced by sentinel items - not by matching the spelling of the source.

  prune_probe           what each `prune()` does to every child list, per concrete class x `proc_internals`
  set_display_probe     `_set_display` on a real entity / a real source file for ~350 (parent list, metadata) inputs
  should_display_probe  `_should_display` / `filter_display` truth table, per distinct implementation in the MRO
  str_probe             `FortranBase.__str__`: link or plain name, per (has a URL, `visible`, has a name)
  children_probe        which attributes `children` / `routines` consult, in which order (recording `__getattr__`)
  find_in_list_probe    `_find_in_list` on a few collections
  url_probe             `get_dir` / `get_url` per (class, class of the parent) of the probe project
  project_probe         `Project(...)` + `correlate()` on the probe project: which namelists are collected, which
                        units are pruned (and that every `correlate` precedes the first `prune`), what `correlate`
                        alone marks visible, what an extending type inherits, where common-block members go,
                        how namelist variables are resolved, which child lists of which units fill which
                        project page lists (CONTAINERS x chain, observed)

Everything a probe cannot make sense of is reported in `anomalies` (pinned to `[]` by a theorem), or raises."""
from __future__ import annotations

import copy
import itertools
import os
import pathlib

from harness import common

PROBE_SRC = """\
!! file doc
module pm
  implicit none
  private
  type, public :: pt0
    !! doc
    integer, public :: c0pub
    integer, private :: c0priv
  contains
    procedure, public :: b0pub => ps
    procedure, private :: b0priv => ps
    procedure, public :: b0over => ps
    final :: pfin
  end type pt0
  type, public, extends(pt0) :: pt1
    integer :: c1
  contains
    procedure :: b0over => ps2
    procedure :: b1 => ps2
  end type pt1
  interface pg
    module procedure ps
  end interface pg
  abstract interface
    subroutine pai()
    end subroutine pai
  end interface
  interface
    module subroutine pms()
    end subroutine pms
    module subroutine pmp()
    end subroutine pmp
    module function pmf() result(r)
      integer :: r
    end function pmf
  end interface
  enum, bind(c)
    enumerator :: pe1
  end enum
  integer :: pv, pcv, pnv
  common /pcb/ pcv
  namelist /pnlm/ pnv
contains
  subroutine ps(self, a)
    class(pt0) :: self
    integer :: a
    integer :: loc
    namelist /pnls/ loc, a, pv
    type plt
      integer :: plc
    end type plt
  contains
    subroutine pint()
      integer :: q
      namelist /pnli/ q
    end subroutine pint
  end subroutine ps
  subroutine ps2(self)
    class(pt1) :: self
  end subroutine ps2
  subroutine pfin(self)
    type(pt0) :: self
  end subroutine pfin
  function pfn() result(r)
    integer :: r
  end function pfn
end module pm
submodule (pm) psm
  integer :: smv
  type smt
    integer :: smc
  end type smt
  interface smg
    module procedure sms
  end interface smg
  abstract interface
    subroutine smai()
    end subroutine smai
  end interface
  namelist /pnlsm/ smv
contains
  module procedure pmp
    integer :: w
    namelist /pnlmp/ w
  end procedure pmp
  module subroutine pms()
    integer :: w2
    namelist /pnlms/ w2
  end subroutine pms
  module function pmf() result(r)
    integer :: r
  end function pmf
  subroutine sms()
    integer :: w3
    namelist /pnlss/ w3
  end subroutine sms
  function smf() result(r)
    integer :: r
  end function smf
end submodule psm
program pp
  integer :: ppv
  type ppt
    integer :: ppc
  end type ppt
  interface ppg
    procedure ppi
  end interface ppg
  abstract interface
    subroutine ppai()
    end subroutine ppai
  end interface
  namelist /pnlp/ ppv
contains
  subroutine ppi()
    integer :: z
    namelist /pnlpi/ z
  end subroutine ppi
  function ppf() result(r)
    integer :: r
  end function ppf
end program pp
block data pbd
  integer :: bx
  type pbt
    integer :: bc
  end type pbt
  common /pcb2/ bx
end block data pbd
subroutine ptop(x)
  integer :: x
  integer :: tl
  type ptt
    integer :: ptc
  end type ptt
  namelist /pnlt/ tl, x
contains
  subroutine ptopi()
    integer :: y
    namelist /pnlti/ y
  end subroutine ptopi
end subroutine ptop
function ptopf() result(r)
  integer :: r
  integer :: fl
  namelist /pnlf/ fl
contains
  function ptopfi() result(r2)
    integer :: r2
  end function ptopfi
end function ptopf
"""

WORDS = ["public", "protected", "private", "none", "bogus"]
CODE = {"public": 0, "protected": 1, "private": 2, "none": 3}  # anything else: 4


def code(w):
    return CODE.get(w, 4)


class Ctx:
    """the FORD under test + a parsed (not yet correlated) probe project"""

    def __init__(self):
        self.ford = common.import_ford()
        import ford.sourceform as sf

        self.sf = sf
        self.anomalies: list[str] = []
        self._dir_cm = common.scratch_dir(prefix="ford-verif-c05probe-")
        self.dir = self._dir_cm.__enter__()
        (self.dir / "probe.f90").write_text(PROBE_SRC)
        self.proj = self.parse()
        self.by_pair = {}
        self.objects = []
        for f in self.proj.files:
            self._walk(f, None)
        self.by_class = {}
        for o in self.objects:
            self.by_class.setdefault(type(o).__name__, o)

    def close(self):
        self._dir_cm.__exit__(None, None, None)

    def parse(self, **kw):
        from ford.fortran_project import Project
        from ford.settings import ProjectSettings

        self.sf.namelist = self.sf.NameSelector()
        opts = dict(src_dir=[self.dir], display=["public", "private", "protected"], proc_internals=True,
                    hide_undoc=False, preprocess=False, dbg=False)
        opts.update(kw)
        with common.quiet():
            return Project(ProjectSettings(**opts))

    def _walk(self, o, par, seen=None):
        self.objects.append(o)
        self.by_pair.setdefault((type(o).__name__, type(par).__name__ if par is not None else "-"), o)
        for k, v in list(vars(o).items()):
            if isinstance(v, list):
                for it in v:
                    if isinstance(it, self.sf.FortranBase) and getattr(it, "parent", None) is o \
                            and not any(it is x for x in self.objects):
                        self._walk(it, o)
            elif k != "parent" and isinstance(v, self.sf.FortranBase) and getattr(v, "parent", None) is o \
                    and not any(v is x for x in self.objects):
                self._walk(v, o)

    def list_universe(self):
        """every attribute name that holds a list in some object of the probe project"""
        names = set()
        for o in self.objects:
            for k, v in vars(o).items():
                if isinstance(v, list):
                    names.add(k)
        return sorted(names)

    def entity_lists(self):
        """attribute names whose lists hold entities (children) in some object of the probe project"""
        names = set()
        for o in self.objects:
            for k, v in vars(o).items():
                if isinstance(v, list) and any(isinstance(x, self.sf.FortranBase) for x in v):
                    names.add(k)
        return sorted(names)


class Item:
    """sentinel child (plain object; used where only identity matters)"""

    def __init__(self, tag, permission="public", documented=True):
        self.tag = tag
        self.name = tag
        self.permission = permission
        self.doc_list = ["doc"] if documented else []
        self.visible = False
        self.pruned = 0
        self.events = []

    def __setattr__(self, k, v):
        if k == "visible" and "events" in self.__dict__:
            self.events.append(f"visible={v}")
        object.__setattr__(self, k, v)

    def prune(self):
        self.pruned += 1
        self.events.append("prune")

    def __repr__(self):
        return f"<{self.tag}>"


_MEMBER_CLASSES = {}


def member(cx, tag, permission="public", documented=True):
    """sentinel child that is a real entity: a copy of a variable of the probe project (so that every attribute an
    entity has is there: `obj`, `parent`, `meta`, `name`, ...) whose class records `visible = ...` and `prune()`"""
    base = cx.by_pair.get(("FortranVariable", "FortranModule")) or cx.by_class["FortranVariable"]
    cls = _MEMBER_CLASSES.get(type(base))
    if cls is None:
        class Member(type(base)):
            def __setattr__(self, k, v):
                if k == "visible" and "events" in self.__dict__:
                    self.events.append(f"visible={v}")
                object.__setattr__(self, k, v)

            def prune(self):
                self.events.append("prune")

            def __repr__(self):
                return f"<{self.tag}>"

        cls = _MEMBER_CLASSES[type(base)] = Member
    o = copy.copy(base)
    o.__class__ = cls
    o.tag = tag
    o.name = tag
    o.permission = permission
    o.doc_list = ["doc"] if documented else []
    o.visible = False
    o.events = []
    return o


PRUNE_CLASSES = ["FortranModule", "FortranSubmodule", "FortranProgram", "FortranSubroutine", "FortranFunction",
                 "FortranModuleProcedureImplementation", "FortranType", "FortranBlockData"]


def _definer(cls, name):
    for k in cls.__mro__:
        if name in k.__dict__:
            return k.__name__
    return None


def prune_probe(cx: Ctx):
    """-> rows [(class, proc_internals, emptied, filtered, visible_only, recurse)], universe, classes [(class, definer)]"""
    sf = cx.sf
    universe = sorted(set(cx.entity_lists()) | {"modprocedures", "modsubroutines", "modfunctions"})
    rows = []
    classes = []
    for name in sorted(vars(sf)):
        cls = getattr(sf, name)
        if isinstance(cls, type) and issubclass(cls, sf.FortranBase) and cls.__module__ == sf.__name__ \
                and hasattr(cls, "prune") and not name.startswith("External"):
            classes.append((name, _definer(cls, "prune")))
    concrete = [c for c, _ in classes if c in cx.by_class]
    for c in PRUNE_CLASSES:
        if c not in concrete:
            raise ValueError(f"prune probe: no instance of {c} with a prune() in the probe project")
    for cname in sorted(concrete):
        if cname.startswith("External"):
            continue
        inst = cx.by_class[cname]
        for pint in (False, True):
            o = copy.copy(inst)
            o.meta = copy.copy(inst.meta)
            o.meta.proc_internals = pint
            o.settings = copy.copy(inst.settings)
            o.settings.hide_undoc = True
            o.display = ["public"]
            items = {}
            for l in universe:
                items[l] = [member(cx, f"{l}.keep"), member(cx, f"{l}.priv", permission="private"),
                            member(cx, f"{l}.undoc", documented=False)]
                setattr(o, l, list(items[l]))
            before = dict(vars(o))
            o.prune()
            emptied, filtered, visible, recurse = [], [], [], []
            for l in universe:
                now = getattr(o, l)
                orig = items[l]
                if not isinstance(now, list):
                    cx.anomalies.append(f"prune {cname}/{pint}: {l} is no list afterwards")
                    continue
                if len(now) == 0:
                    emptied.append(l)
                elif len(now) == 1 and now[0] is orig[0]:
                    filtered.append(l)
                elif len(now) == 3 and all(a is b for a, b in zip(now, orig)):
                    pass
                else:
                    cx.anomalies.append(f"prune {cname}/{pint}: {l} -> {now!r}")
                keep = orig[0]
                if l in emptied or l in filtered:
                    # what was removed must not have been touched (marked visible / pruned) on the way
                    gone = orig if l in emptied else orig[1:]
                    for it in gone:
                        if it.events:
                            cx.anomalies.append(f"prune {cname}/{pint}: removed member {it!r} of {l} was touched: {it.events}")
                elif any(it.events != keep.events for it in orig[1:]):
                    cx.anomalies.append(f"prune {cname}/{pint}: members of the unfiltered list {l} treated differently")
                if l in emptied:
                    continue
                if keep.events == ["visible=True"]:
                    visible.append(l)
                elif keep.events == ["visible=True", "prune"]:
                    recurse.append(l)
                elif keep.events:
                    cx.anomalies.append(f"prune {cname}/{pint}: kept member of {l}: {keep.events}")
            for k, v in vars(o).items():
                if k in universe:
                    continue
                if k in before and before[k] is not v:
                    cx.anomalies.append(f"prune {cname}/{pint}: attribute {k} changed")
            rows.append((cname, pint, emptied, filtered, visible, recurse))
    return rows, universe, classes


def _md_inputs():
    seqs = [()]
    for n in (1, 2):
        seqs += list(itertools.product(WORDS, repeat=n))
    seqs += list(itertools.product(["protected", "none", "bogus"], repeat=3))
    return seqs


def set_display_probe(cx: Ctx):
    """-> (rows [(is_file, parent codes, md codes, result codes, result is the inherited list object)],
           subjects [(class, meta.proc_internals)] the rows were measured on)

    The rows are the *set* of outcomes over one real object of every class of the probe project x
    `meta.proc_internals` off / on: `display` and `proc_internals` are independent options, so a class or a value
    of `proc_internals` that makes `_set_display` answer differently adds rows (which the model cannot match)."""
    rows = set()
    subjects = []

    class Par:
        def __init__(self, display):
            self.display = display

        def __bool__(self):
            return True

    for cname in sorted(cx.by_class):
        inst = cx.by_class[cname]
        if not hasattr(inst, "_set_display") or not hasattr(inst, "meta"):
            continue
        is_file = isinstance(inst, cx.sf.FortranSourceFile)
        for pi in (False, True):
            subjects.append((cname, pi))
            for parent in ([], ["public"], ["private", "protected"]):
                for md in _md_inputs():
                    for variant in (0, 1):
                        words = [w.upper() if (variant and i % 2 == 0) else (w.capitalize() if variant else w)
                                 for i, w in enumerate(md)]
                        o = copy.copy(inst)
                        o.meta = copy.copy(inst.meta)
                        o.meta.display = list(words)
                        o.meta.proc_internals = pi
                        inherited = list(parent)
                        if is_file:
                            o.parent = None
                            o.display = inherited
                        else:
                            o.parent = Par(inherited)
                            o.display = ["stale"]
                        try:
                            ret = o._set_display()
                        except Exception as ex:  # noqa: BLE001 - recorded, the theorem pins the list to []
                            cx.anomalies.append(f"_set_display raised {type(ex).__name__} on {cname}")
                            continue
                        if ret is not None:
                            cx.anomalies.append(f"_set_display returned {ret!r}")
                        if inherited != list(parent):
                            cx.anomalies.append(f"_set_display changed the inherited list in place: {parent} / {words}")
                        if o.meta.display != list(words):
                            cx.anomalies.append(f"_set_display changed meta.display in place: {words}")
                        if o.meta.proc_internals is not pi:
                            cx.anomalies.append("_set_display changed meta.proc_internals")
                        if not isinstance(o.display, list):
                            cx.anomalies.append(f"_set_display: display is {type(o.display).__name__}")
                            continue
                        rows.add((is_file, tuple(code(w) for w in parent), tuple(code(w) for w in md),
                                  tuple(code(w) for w in o.display), o.display is inherited))
    return sorted(rows), subjects


def template_env():
    """FORD's own Jinja2 environment (filters, tests, globals of `ford.output`) with the loader
    `Documentation.__init__` would install, as an overlay: the shared environment is left alone"""
    import jinja2

    import ford.output as out

    return out.env.overlay(loader=jinja2.FileSystemLoader([str(out.loc / "templates")]))


def name_cell(html, tb_name):
    """what `bound_declaration` printed as the name of the binding: -> (kind, href | None)"""
    from bs4 import BeautifulSoup

    strong = BeautifulSoup(html, "html.parser").find("strong")
    if strong is None:
        return "no-name", None
    a = strong.find("a")
    if a is None:
        return ("name" if strong.get_text().strip() == tb_name else "other-text"), None
    return "link", a.get("href")


def bound_decl_probe(cx: Ctx):
    """The real macros `type_summary` (site `summary`: the card of a type on the page of its module / program /
    procedure / block data unit) and `bound_info` (site `info`: the type's own page) of `macros.html`, rendered by
    FORD's Jinja2 environment on the real, correlated types of the probe project (`pt1` extends `pt0` and inherits
    `b0pub`; `b1` is its own), for every combination of `tb.visible`, `visible` of the type that declares the
    binding, and `external_url` set / absent.
    -> rows [(site, inherited, tb visible, declaring type visible, external, name | link:declaring-type-page |
              link:carrier-page | link:external | link:other)]"""
    proj = cx.parse()
    with common.quiet():
        proj.correlate()
    types = {t.name: t for f in proj.files for m in f.modules for t in m.types}
    carrier, base = types["pt1"], types["pt0"]
    env = template_env()
    out_dir = pathlib.Path("/ford-verif-probe-out")  # never touched: URLs are only compared
    page_url = out_dir / "module" / "pm.html"
    own_page = out_dir / "type" / "pt1.html"
    rows = []
    for site in ("summary", "info"):
        mod = env.get_template("macros.html").make_module({"page_url": page_url if site == "summary" else own_page})
        for inherited in (False, True):
            name = "b0pub" if inherited else "b1"
            orig = next(b for b in carrier.boundprocs if b.name == name)
            if (orig.parent is base) is not inherited:
                cx.anomalies.append(f"bound_decl_probe: {name} is declared in {orig.parent.name}")
            for tbv, dv, ext in itertools.product((True, False), repeat=3):
                t = copy.copy(carrier)
                decl = copy.copy(base) if inherited else t
                decl.visible = dv
                if inherited:
                    t.visible = True
                    t.extends = decl
                tb = copy.copy(orig)
                tb.visible = tbv
                tb.parent = decl
                t.base_url = decl.base_url = tb.base_url = out_dir
                if ext:
                    tb.external_url = "http://external.invalid/type/x.html#boundprocedure-" + name
                t.boundprocs = [tb]
                t.variables, t.finalprocs, t.constructor = [], [], None
                try:
                    html = str(mod.type_summary(t)) if site == "summary" else str(mod.bound_info(tb))
                except Exception as ex:  # noqa: BLE001
                    cx.anomalies.append(f"bound_decl_probe: rendering raised {type(ex).__name__}: {ex}")
                    continue
                from bs4 import BeautifulSoup

                # the cell of the binding (an entity that is not a link goes through `relurl` as a path: the
                # name is then the last component)
                cells = [st for st in BeautifulSoup(html, "html.parser").find_all("strong")
                         if st.get_text().strip().split("/")[-1] == name]
                if len(cells) != 1:
                    cx.anomalies.append(f"bound_decl_probe: {len(cells)} name cells for {name} ({site})")
                    continue
                a = cells[0].find("a")
                if a is None:
                    out = "name"
                else:
                    href = a.get("href") or ""
                    if href.startswith("http"):
                        out = "link:external"
                    else:
                        here = "module" if site == "summary" else "type"
                        tgt = os.path.normpath(os.path.join(here, href.split("#")[0]))
                        out = ("link:declaring-type-page" if tgt == os.path.normpath(decl.get_url()) else
                               "link:carrier-page" if tgt == os.path.normpath(t.get_url()) else "link:other")
                rows.append((site, inherited, tbv, dv, ext, out))
    return rows


def _url(o):
    try:
        return o.get_url()
    except Exception:  # noqa: BLE001
        return None


def graph_node_probe(cx: Ctx):
    """`ford.graphs.BaseNode.__init__` (the constructor every graph node class runs first) on copies of the real objects
    of the probe project that have a URL - one per class - and on one without (an internal procedure), for `visible`
    true / false / absent x `visible` of the parent true / false / absent.
    -> rows [(class, is a type-bound procedure, has a URL, visible, parent visible, the node carries a URL attribute,
              that URL is parent_dir + get_url())]"""
    import ford.graphs as gr

    gd = gr.GraphData("../", False, False)
    rows = []
    subjects = []
    for cname in sorted(cx.by_class):
        cands = [o for o in cx.objects if type(o).__name__ == cname and hasattr(o, "get_url") and hasattr(o, "ident")]
        if not cands:
            continue
        with_url = [o for o in cands if _url(o)]
        without = [o for o in cands if not _url(o)]
        subjects += with_url[:1] + without[:1]
    for inst in subjects:
        url = _url(inst)
        if getattr(inst, "parent", None) is None and type(inst).__name__ != "FortranSourceFile":
            continue
        for vis in ("true", "false", "absent"):
            for pvis in ("true", "false", "absent"):
                o = copy.copy(inst)
                vars(o).pop("external_url", None)
                if o.parent is not None:
                    o.parent = copy.copy(inst.parent)
                    if pvis == "absent":
                        vars(o.parent).pop("visible", None)
                    else:
                        o.parent.visible = pvis == "true"
                elif pvis != "absent":
                    continue
                if vis == "absent":
                    vars(o).pop("visible", None)
                else:
                    o.visible = vis == "true"
                if hasattr(type(o), "visible") or (o.parent is not None and hasattr(type(o.parent), "visible")):
                    cx.anomalies.append(f"graph_node_probe: {type(o).__name__} has a class-level `visible`")
                try:
                    node = gr.BaseNode(o, gd)
                except Exception as ex:  # noqa: BLE001
                    cx.anomalies.append(f"graph_node_probe: BaseNode({type(o).__name__}) raised {type(ex).__name__}: {ex}")
                    continue
                got = node.attribs.get("URL")
                own = _url(o)  # (the copy has an identifier of its own)
                rows.append((type(inst).__name__, isinstance(o, cx.sf.FortranBoundProcedure), bool(url), vis, pvis,
                             got is not None, got == ("../" + own if own else None)))
    return sorted(set(rows))


def should_display_probe(cx: Ctx):
    """-> groups [[classes sharing one `_should_display` + `filter_display`]], rows per group
    [(hide_undoc, documented, permission code, display codes, kept)]"""
    sf = cx.sf
    groups = {}
    for cname, inst in sorted(cx.by_class.items()):
        cls = type(inst)
        if not hasattr(cls, "filter_display"):
            continue
        key = (cls._should_display, cls.filter_display)
        groups.setdefault(key, []).append(cname)
    out = []
    subsets = [list(c) for n in range(4) for c in itertools.combinations(["public", "protected", "private"], n)]
    for key, cnames in groups.items():
        inst = cx.by_class[cnames[0]]
        rows = []
        for hide in (False, True):
            for documented in (False, True):
                for perm in ("public", "protected", "private", "bogus"):
                    for disp in subsets:
                        o = copy.copy(inst)
                        o.settings = copy.copy(inst.settings)
                        o.settings.hide_undoc = hide
                        o.display = list(disp)
                        it = member(cx, "x", permission=perm, documented=documented)
                        direct = bool(o._should_display(it))
                        coll = [it]
                        res = o.filter_display(coll)
                        if res is coll or not isinstance(res, list):
                            cx.anomalies.append("filter_display returns its argument / no list")
                        kept = len(res) == 1 and res[0] is it
                        if kept != direct or (not kept and len(res) != 0):
                            cx.anomalies.append(f"filter_display and _should_display disagree on {perm}/{disp}/{hide}/{documented}")
                        rows.append((hide, documented, code(perm), tuple(code(w) for w in disp), kept))
        # order and multiplicity are kept
        o = copy.copy(inst)
        o.settings = copy.copy(inst.settings)
        o.settings.hide_undoc = False
        o.display = ["public"]
        a, b, c = member(cx, "a"), member(cx, "b", permission="private"), member(cx, "c")
        res = o.filter_display([a, b, c, a])
        if not (len(res) == 3 and res[0] is a and res[1] is c and res[2] is a):
            cx.anomalies.append(f"filter_display does not keep order / multiplicity: {res!r}")
        if o.filter_display([]) != []:
            cx.anomalies.append("filter_display([]) is not []")
        out.append((sorted(cnames), rows))
    out.sort()
    return out


def str_probe(cx: Ctx):
    """-> rows [(has_url, visible: 'true'|'false'|'absent', named, outcome)] with outcome in
    link | link-unnamed | name | empty | <raw text>"""
    inst = cx.by_pair[("FortranType", "FortranModule")]
    rows = []
    for has_url in (True, False):
        for vis in ("true", "false", "absent"):
            for named in (True, False):
                o = copy.copy(inst)
                if not has_url:
                    o.external_url = None
                if vis == "absent":
                    vars(o).pop("visible", None)
                else:
                    o.visible = vis == "true"
                o.name = "nm" if named else ""
                url = o.full_url
                if bool(url) != has_url:
                    raise ValueError(f"__str__ probe: could not control full_url ({url!r})")
                s = str(o)
                if url and s == f"<a href='{url}'>nm</a>":
                    out = "link"
                elif url and s.startswith(f"<a href='{url}'>") and named is False and s.endswith("</a>"):
                    out = "link-unnamed"
                elif s == "nm":
                    out = "name"
                elif s == "":
                    out = "empty"
                else:
                    out = s
                rows.append((has_url, vis, named, out))
    return rows


def _recorder(cx, base):
    log = []

    class Rec(base):
        def __getattr__(self, name):
            if name.startswith("__"):
                raise AttributeError(name)
            log.append(name)
            raise AttributeError(name)

    return Rec.__new__(Rec), log


def children_probe(cx: Ctx):
    """-> (list attributes consulted by `children` in order, single-object attributes, lists of `routines`)"""
    sf = cx.sf
    o, log = _recorder(cx, sf.FortranBase)
    list(o.children)
    asked = list(dict.fromkeys(log))
    lists, singles = [], []
    for n in asked:
        o, _ = _recorder(cx, sf.FortranBase)
        s = Item("s")
        vars(o)[n] = [s]
        try:
            got = list(o.children)
        except TypeError:
            got = None
        if got is not None and len(got) == 1 and got[0] is s:
            lists.append(n)
            continue
        o, _ = _recorder(cx, sf.FortranBase)
        vars(o)[n] = s
        try:
            got = list(o.children)
        except TypeError:
            got = None
        if got is not None and len(got) == 1 and got[0] is s:
            singles.append(n)
        else:
            cx.anomalies.append(f"children consults {n} but yields neither its members nor itself")
    # order with everything present
    o, _ = _recorder(cx, sf.FortranBase)
    marks = {}
    for n in lists:
        marks[n] = Item(n)
        vars(o)[n] = [marks[n]]
    for n in singles:
        marks[n] = Item(n)
        vars(o)[n] = marks[n]
    got = [x.tag for x in o.children]
    if got != lists + singles:
        cx.anomalies.append(f"children yields {got}, lookup order was {lists + singles}")
    # routines
    o, log = _recorder(cx, sf.FortranBase)
    list(o.routines)
    rl = []
    for n in dict.fromkeys(log):
        o, _ = _recorder(cx, sf.FortranBase)
        s = Item("s")
        vars(o)[n] = [s]
        got = list(o.routines)
        if len(got) == 1 and got[0] is s:
            rl.append(n)
        else:
            cx.anomalies.append(f"routines consults {n} but does not yield its members")
    return lists, singles, rl


def find_in_list_probe(cx: Ctx):
    """-> rows [(case, index of the item returned or -1)]"""
    sf = cx.sf
    f = sf._find_in_list
    v = cx.by_class["FortranVariable"]

    def mk(name):
        o = copy.copy(v)
        o.name = name
        return o

    cases = {
        "first-of-two-equal": (["x", mk("x"), mk("x")], "x"),
        "case-insensitive-item": ([mk("a"), mk("Xy")], "xy"),
        "case-insensitive-query": ([mk("a"), mk("xy")], "XY"),
        "strings-are-skipped": (["xy", "xy"], "xy"),
        "not-found": ([mk("a"), mk("b")], "c"),
        "no-prefix-match": ([mk("xyz"), mk("xy")], "xy"),
        "empty": ([], "x"),
        "generator": ((m for m in [mk("q"), mk("x")]), "x"),
    }
    rows = []
    for tag, (coll, name) in cases.items():
        lst = list(coll) if isinstance(coll, list) else None
        if lst is None:
            members = [mk("q"), mk("x")]
            got = f((m for m in members), name)
            lst = members
        else:
            got = f(lst, name)
        idx = -1
        for i, m in enumerate(lst):
            if got is m:
                idx = i
        if got is not None and idx < 0:
            cx.anomalies.append(f"_find_in_list returned a foreign object on {tag}")
        rows.append((tag, idx))
    return rows


def url_probe(cx: Ctx):
    """-> rows [(class, class of parent, get_dir or '-', url shape)]; shape: page | anchor:<class of the page owner> | none"""
    rows = []
    for (c, p), o in sorted(cx.by_pair.items()):
        if not hasattr(o, "get_dir"):
            continue
        d = o.get_dir()
        try:
            u = o.get_url()
        except Exception as e:  # noqa
            u = f"!{type(e).__name__}"
        if u is None:
            shape = "none"
        elif u.startswith("!"):
            shape = u
        elif "#" in u:
            page = u.split("#")[0]
            owner = o.parent
            while owner is not None and owner.get_url() != page:
                owner = getattr(owner, "parent", None)
            shape = "anchor:" + (type(owner).__name__ if owner is not None else "?")
            if u.split("#")[1] != o.anchor:
                shape += ":foreign-anchor"
        else:
            shape = "page" if (d and u == f"{d}/{o.ident}.html") else f"other:{u}"
        rows.append((c, p, d or "-", shape))
    return rows


UNIT_LISTS = ["modules", "submodules", "functions", "subroutines", "programs", "blockdata"]


def project_probe(cx: Ctx):
    sf = cx.sf
    out = {}
    proj = cx.proj
    # --- visible after construction, per class (all instances agree)
    vis = {}
    for o in cx.objects:
        if hasattr(o, "visible"):
            vis.setdefault(type(o).__name__, set()).add(bool(o.visible))
    out["visible_at_init"] = sorted(c for c, s in vis.items() if s == {True})
    # --- namelists collected when the file is read
    got = {id(n) for n in proj.namelists}
    if len(got) != len(proj.namelists):
        cx.anomalies.append("a namelist is collected twice")
    f = proj.files[0]
    collect = []
    for ul in UNIT_LISTS:
        units = getattr(f, ul, [])
        direct = [id(n) in got for u in units for n in getattr(u, "namelists", [])]
        rout = [id(n) in got for u in units for r in u.routines for n in getattr(r, "namelists", [])]
        deeper = [id(n) in got for u in units for r in u.routines for r2 in r.routines for n in getattr(r2, "namelists", [])]
        for tag, xs in (("direct", direct), ("routines", rout)):
            if xs and len(set(xs)) != 1:
                cx.anomalies.append(f"namelists of {ul} ({tag}) collected inconsistently")
        if any(deeper):
            cx.anomalies.append(f"namelists of internal procedures of procedures of {ul} are collected")
        collect.append((ul, bool(direct and all(direct)), bool(rout and all(rout))))
    out["collect"] = collect
    explained = set()
    for ul, d, r in collect:
        for u in getattr(f, ul, []):
            if d:
                explained |= {id(n) for n in getattr(u, "namelists", [])}
            if r:
                explained |= {id(n) for x in u.routines for n in getattr(x, "namelists", [])}
    if explained != got:
        cx.anomalies.append("Project.namelists holds namelists the (unit list, direct, routines) table does not explain")

    # --- correlate on a fresh parse, prune() of every class replaced by a recorder
    p2 = cx.parse()
    events = []
    patched = []
    for name in sorted(vars(sf)):
        cls = getattr(sf, name)
        if isinstance(cls, type) and "prune" in vars(cls):
            orig = vars(cls)["prune"]
            patched.append((cls, "prune", orig))
            setattr(cls, "prune", lambda self: events.append(("prune", self)))
        if isinstance(cls, type) and "correlate" in vars(cls) and issubclass(cls, sf.FortranBase):
            origc = vars(cls)["correlate"]
            patched.append((cls, "correlate", origc))

            def wrap(origc):
                def correlate(self, *a, **k):
                    events.append(("correlate", self))
                    return origc(self, *a, **k)
                return correlate
            setattr(cls, "correlate", wrap(origc))
    try:
        objs2 = []
        seen = set()

        def walk(o):
            if id(o) in seen:
                return
            seen.add(id(o))
            objs2.append(o)
            for k, v in list(vars(o).items()):
                if isinstance(v, list):
                    for it in v:
                        if isinstance(it, sf.FortranBase) and getattr(it, "parent", None) is o:
                            walk(it)
        for fl in p2.files:
            walk(fl)
        vis_before = {id(o): bool(getattr(o, "visible", False)) for o in objs2}
        with common.quiet():
            p2.correlate()
    finally:
        for cls, nm, orig in patched:
            setattr(cls, nm, orig)
    f2 = p2.files[0]
    top = {id(u): ul for ul in UNIT_LISTS for u in getattr(f2, ul, [])}
    pruned = [o for k, o in events if k == "prune"]
    loop = []
    for ul in UNIT_LISTS:
        counts = sorted({sum(1 for o in pruned if o is u) for u in getattr(f2, ul, [])})
        loop.append((ul, ",".join(str(c) for c in counts)))
    for o in pruned:
        if id(o) not in top:
            cx.anomalies.append(f"correlate() calls prune() of {type(o).__name__} {o.name}, which is no unit of a file")
    out["prune_loop"] = loop
    first_prune = next((i for i, (k, _) in enumerate(events) if k == "prune"), len(events))
    out["prune_after_correlate"] = all(k == "prune" for k, _ in events[first_prune:]) and first_prune < len(events)
    # visible set by correlate alone
    vc = set()
    for o in objs2:
        if hasattr(o, "visible") and bool(o.visible) and not vis_before.get(id(o), False):
            par = getattr(o, "parent", None)
            vc.add((type(par).__name__ if par is not None else "-", type(o).__name__))
    out["visible_in_correlate"] = sorted(vc)
    # --- what an extending type carries after correlate (nothing pruned)
    mod = f2.modules[0]
    t0 = next(t for t in mod.types if t.name == "pt0")
    t1 = next(t for t in mod.types if t.name == "pt1")
    inh = []
    for v in t0.variables:
        inh.append(("variable", code(v.permission), any(x is v for x in t1.variables)))
    own0 = {b.name for b in t0.boundprocs}
    for b in t0.boundprocs:
        if b.name == "b0over":
            continue
        inh.append(("boundproc", code(b.permission), any(x is b for x in t1.boundprocs)))
    out["inherit"] = sorted(set(inh))
    names_v = [v.name for v in t1.variables]
    names_b = [b.name for b in t1.boundprocs]
    order_ok = (names_v and names_v[-1] == "c1" and set(names_b[-2:]) == {"b0over", "b1"}
                and [b.name for b in t1.boundprocs].count("b0over") == 1
                and all(b.parent is t1 for b in t1.boundprocs[-2:]))
    out["inherit_own_last_and_overriding"] = bool(order_ok)
    if any(x is t1.variables[-1] for x in t0.variables) or len(t0.variables) != 2:
        cx.anomalies.append("the extended type's own lists were changed by the extending type's correlate")
    fin = [x.name for x in getattr(t1, "finalprocs", [])]
    out["inherit_finalprocs"] = fin
    # --- common block members leave the parent's `variables`
    cb = mod.common[0]
    out["common_moves_members"] = bool(
        all(isinstance(v, sf.FortranVariable) for v in cb.variables)
        and [v.name for v in cb.variables] == ["pcv"]
        and "pcv" not in [v.name for v in mod.variables]
        and {"pv", "pnv"} <= {v.name for v in mod.variables})
    # --- namelist variables are the objects of the scope (locals, dummy arguments, host variables)
    ps = next(s for s in mod.subroutines if s.name == "ps")
    nl = ps.namelists[0]
    want = {"loc": next((v for v in ps.variables if v.name == "loc"), None),
            "a": next((v for v in ps.args if v.name == "a"), None),
            "pv": next((v for v in mod.variables if v.name == "pv"), None)}
    out["namelist_resolves"] = bool(len(nl.variables) == 3 and all(
        isinstance(v, sf.FortranVariable) and want.get(v.name) is v for v in nl.variables))

    # --- page lists: real correlate (nothing removed: display all, proc_internals on)
    p3 = cx.parse()
    before = {k: list(v) for k, v in vars(p3).items() if isinstance(v, list)}
    with common.quiet():
        p3.correlate()
    f3 = p3.files[0]
    triples = set()
    explained = 0
    page_lists = set()
    for L, entries in vars(p3).items():
        if not isinstance(entries, list) or L in ("files", "extra_files") or L.startswith("ext"):
            continue
        for e in entries:
            if not isinstance(e, sf.FortranBase):
                continue
            if any(e is x for x in before.get(L, [])):
                continue
            hits = []
            for ul in UNIT_LISTS:
                for u in getattr(f3, ul, []):
                    for cl, members in vars(u).items():
                        if isinstance(members, list) and any(e is m for m in members) and getattr(e, "parent", None) is u:
                            hits.append((ul, cl))
            hits = sorted(set(hits))
            if len(hits) != 1:
                cx.anomalies.append(f"entry {getattr(e, 'name', '?')} of Project.{L} stands in {hits}")
                continue
            triples.add((hits[0][0], hits[0][1], L))
            page_lists.add(L)
    chain = [ul for ul in UNIT_LISTS if any(t[0] == ul for t in triples)]
    pairs = sorted({(cl, L) for _, cl, L in triples})
    if len({cl for cl, _ in pairs}) != len(pairs):
        cx.anomalies.append(f"a child list fills two project lists: {pairs}")
    for ul in chain:
        for cl, L in pairs:
            for u in getattr(f3, ul, []):
                members = [m for m in getattr(u, cl, []) if isinstance(m, sf.FortranBase)]
                tgt = getattr(p3, L)
                if not all(any(m is x for x in tgt) for m in members):
                    cx.anomalies.append(f"{ul}.{cl} is not copied into Project.{L} although other units' {cl} are")
                if sum(1 for x in tgt for m in members if x is m) != len(members):
                    cx.anomalies.append(f"members of {ul}.{cl} stand in Project.{L} more than once")
    out["containers"] = pairs
    out["chain"] = chain
    out["container_triples"] = sorted(triples)
    return out


# --------------------------------------------------------------------------- the link lookup (round 5, second part)

def find_child_probe(cx: Ctx, children_lists, singles):
    """`FortranBase.find_child(name, entity=None)` on recording stubs -> rows [(case, outcome)]"""
    sf = cx.sf
    v = cx.by_class["FortranVariable"]
    rows = []

    def mk(name):
        o = copy.copy(v)
        o.name = name
        return o

    def stub(**attrs):
        o, _ = _recorder(cx, sf.FortranBase)
        o.obj = "stub"
        for k, x in attrs.items():
            vars(o)[k] = x
        return o

    def outcome(f, want=None):
        try:
            got = f()
        except ValueError:
            return "ValueError"
        except Exception as e:  # noqa
            return type(e).__name__
        if got is None:
            return "None"
        if want is not None and got is want:
            return "found"
        return "other:" + getattr(got, "name", "?")

    # bare name: every list / single attribute `children` knows is searched
    for l in children_lists:
        it = mk("nm")
        rows.append(("bare-list", l, "", outcome(lambda: stub(**{l: [mk("zz"), it]}).find_child("NM"), it)))
    for l in singles:
        it = mk("nm")
        rows.append(("bare-single", l, "", outcome(lambda: stub(**{l: it}).find_child("nm"), it)))
    rows.append(("bare-not-found", "", "", outcome(lambda: stub(variables=[mk("a")]).find_child("nm"))))
    if len(children_lists) >= 2:
        a, b = mk("nm"), mk("nm")
        first, last = children_lists[0], children_lists[-1]
        rows.append(("bare-first-list-wins", "", "", outcome(lambda: stub(**{last: [b], first: [a]}).find_child("nm"), a)))
    # entity word: the list SUBLINK_TYPES names, nothing else
    sub = getattr(sf, "SUBLINK_TYPES", None)
    if not isinstance(sub, dict) or not sub:
        raise ValueError("SUBLINK_TYPES not found in ford/sourceform.py")
    for word, l in sub.items():
        it, other = mk("nm"), mk("nm")
        other_list = "variables" if l != "variables" else "types"
        rows.append(("entity", word, l, outcome(
            lambda: stub(**{other_list: [other], l: [it]}).find_child("nm", word.upper()), it)))
    rows.append(("entity-unknown-word", "", "", outcome(lambda: stub(variables=[mk("nm")]).find_child("nm", "nosuchentity"))))
    word, l = next(iter(sub.items()))
    rows.append(("entity-list-missing", "", "", outcome(lambda: stub(**{("types" if l != "types" else "variables"): [mk("nm")]}).find_child("nm", word))))
    return rows


def project_find_probe(cx: Ctx):
    """`Project.find(name, entity, child_name, child_entity)` on a stub project -> rows [(case, outcome)]"""
    sf = cx.sf
    import ford.fortran_project as fp

    lt = getattr(fp, "LINK_TYPES", None)
    if not isinstance(lt, dict) or not lt:
        raise ValueError("LINK_TYPES not found in ford/fortran_project.py")
    v = cx.by_class["FortranVariable"]
    lists = list(dict.fromkeys(lt.values()))

    def mk(name):
        o = copy.copy(v)
        o.name = name
        return o

    def project(content):
        p = fp.Project.__new__(fp.Project)
        for l in lists:
            items = content.get(l, [])
            try:
                setattr(p, l, list(items))
            except AttributeError:
                # a read-only property (allfiles = files + extra_files)
                if l == "allfiles":
                    p.files = list(items)
                    p.extra_files = []
                else:
                    raise ValueError(f"Project.{l} cannot be set on a stub")
        if "files" not in vars(p) and not hasattr(p, "files"):
            p.files, p.extra_files = [], []
        return p

    def outcome(f, want=None):
        try:
            got = f()
        except ValueError:
            return "ValueError"
        except Exception as e:  # noqa
            return type(e).__name__
        if got is None:
            return "None"
        if want is not None and got is want:
            return "found"
        return "other:" + str(getattr(got, "name", got))

    rows = []
    for l in lists:
        it = mk("nm")
        rows.append(("bare-list", l, "", outcome(lambda: project({l: [mk("zz"), it]}).find("NM"), it)))
    a, b = mk("nm"), mk("nm")
    rows.append(("bare-first-list-wins", "", "", outcome(lambda: project({lists[-1]: [b], lists[0]: [a]}).find("nm"), a)))
    rows.append(("bare-not-found", "", "", outcome(lambda: project({lists[0]: [mk("a")]}).find("nm"))))
    for word, l in lt.items():
        it, other = mk("nm"), mk("nm")
        other_list = next(x for x in lists if x != l)
        rows.append(("entity", word, l, outcome(lambda: project({other_list: [other], l: [it]}).find("nm", word.upper()), it)))
    rows.append(("entity-unknown-word", "", "", outcome(lambda: project({lists[0]: [mk("nm")]}).find("nm", "nosuchentity"))))
    # an external bound procedure is never a hit
    eb = getattr(sf, "ExternalBoundProcedure", None)
    if eb is not None:
        x = eb.__new__(eb)
        x.name = "nm"
        it = mk("nm")
        rows.append(("bare-external-bound-procedure-skipped", "", "", outcome(lambda: project({lists[0]: [x, it]}).find("nm"), it)))
    # child: the hit's own find_child decides

    class Hit(type(v)):
        def find_child(self, name, entity=None):
            self.asked = (name, entity)
            return self.child

    h = copy.copy(v)
    h.__class__ = Hit
    h.name = "nm"
    h.child = mk("kid")
    got = outcome(lambda: project({lists[0]: [h]}).find("nm", None, "kid", "variable"), h.child)
    rows.append(("child-asks-the-hit", "", "", got + ":" + repr(getattr(h, "asked", None))))
    rows.append(("child-parent-not-found", "", "", outcome(lambda: project({lists[0]: [mk("a")]}).find("nm", None, "kid", None))))
    return rows


def convert_link_probe(cx: Ctx):
    """`FordLinkProcessor.convert_link` through a real `MetaMarkdown(project=<stub>)`: scripted contexts / project,
    the calls it makes and what it renders -> rows [(case, trace)]"""
    from ford._markdown import MetaMarkdown

    class Ent:
        def __init__(self, name, url="proc/x.html", children=None, parent=None, raises=False, dir_="proc", visible=True):
            self.name = name
            self.filename = "probe.f90"
            self._url = url
            self.kids = children or {}
            self.parent = parent
            self.raises = raises
            self._dir = dir_
            self.visible = visible
            self.log = None

        def find_child(self, name, entity=None):
            self.log.append(f"{self.name}.find_child({name},{entity})")
            if self.raises:
                raise ValueError("scripted")
            return self.kids.get(name)

        def get_url(self):
            return self._url

        def get_dir(self):
            return self._dir

    class Proj:
        def __init__(self, table):
            self.table = table
            self.log = None

        def find(self, name, entity=None, child_name=None, child_entity=None):
            self.log.append(f"project.find({name},{entity},{child_name},{child_entity})")
            return self.table.get((name, child_name))

    def run(text, ctx, proj, ents):
        log = []
        proj.log = log
        for e in ents:
            e.log = log
        md = MetaMarkdown(project=proj)
        try:
            with common.quiet():
                html = md.reset().convert(text, context=ctx)
        except Exception as e:  # noqa
            return "; ".join(log) + f" => {type(e).__name__}"
        import re as _re

        m = _re.search(r"<a(?:\s+href=\"([^\"]*)\")?\s*>([^<]*)</a>", html)
        res = "no-anchor" if not m else (f"href={m.group(1)} text={m.group(2)}" if m.group(1) is not None else f"plain text={m.group(2)}")
        return "; ".join(log) + " => " + res

    rows = []
    hit = Ent("hit", "proc/hit.html")
    kid = Ent("kid", "proc/hit.html#variable-kid", dir_=None, parent=hit)

    def scene(ctx_kids=None, par_kids=None, table=None, ctx_raises=False, with_parent=True):
        par = Ent("par", "module/par.html", par_kids or {}, dir_="module") if with_parent else None
        ctx = Ent("ctx", "proc/ctx.html", ctx_kids or {}, parent=par, raises=ctx_raises)
        return ctx, par, Proj(table or {})

    def go(tag, text, ctx, par, proj, extra=()):
        ents = [e for e in (ctx, par, hit, kid) + tuple(extra) if e is not None]
        rows.append((tag, run(text, ctx, proj, ents)))

    hit.kids = {"kid": kid}
    c, p, q = scene(ctx_kids={"hit": hit})
    go("context-hit", "[[hit]]", c, p, q)
    c, p, q = scene(par_kids={"hit": hit})
    go("parent-hit", "[[hit]]", c, p, q)
    c, p, q = scene(table={("hit", None): hit})
    go("project-hit", "[[hit]]", c, p, q)
    c, p, q = scene()
    go("nowhere", "[[hit]]", c, p, q)
    c, p, q = scene(par_kids={"hit": hit}, ctx_raises=True)
    go("context-raises-valueerror", "[[hit(type)]]", c, p, q)
    c, p, q = scene(ctx_kids={"hit": hit}, with_parent=False, table={("hit", None): hit})
    go("no-parent-context-hit", "[[hit]]", c, p, q)
    c, p, q = scene(with_parent=False, table={("hit", None): hit})
    go("no-parent-project-hit", "[[hit]]", c, p, q)
    go("no-context", "[[hit]]", None, None, Proj({("hit", None): hit}))
    c, p, q = scene(ctx_kids={"hit": hit})
    go("child-of-context-hit", "[[hit:kid]]", c, p, q)
    c, p, q = scene(ctx_kids={"hit": hit})
    go("child-missing-under-context-hit", "[[hit:nokid]]", c, p, Proj({("hit", None): hit}))
    bad = Ent("hit", "proc/hit.html", raises=True)
    c, p, q = scene(ctx_kids={"hit": bad})
    go("child-lookup-raises", "[[hit:kid(variable)]]", c, p, q, extra=(bad,))
    c, p, q = scene(table={("hit", "kid"): kid})
    go("child-through-project", "[[hit:kid]]", c, p, q)
    c, p, q = scene(table={("hit", None): hit})
    go("child-missing-in-project", "[[hit:nokid]]", c, p, q)
    nourl = Ent("hit", None)
    c, p, q = scene(ctx_kids={"hit": nourl})
    go("hit-without-url", "[[hit]]", c, p, q, extra=(nourl,))
    ext = Ent("hit", "https://example.org/x.html")
    ext.external_url = "https://example.org/x.html"
    c, p, q = scene(ctx_kids={"hit": ext})
    go("external-url-kept", "[[hit]]", c, p, q, extra=(ext,))
    # the page of the hit is not part of the output (the variant switch of the model: `checksPage`)
    hidden = Ent("hit", "proc/hit.html", visible=False)
    c, p, q = scene(ctx_kids={"hit": hidden})
    go("hit-page-not-visible", "[[hit]]", c, p, q, extra=(hidden,))
    hpar = Ent("hp", "proc/hp.html", visible=False)
    inner = Ent("hit", "proc/hp.html#variable-hit", dir_=None, parent=hpar)
    c, p, q = scene(ctx_kids={"hit": inner})
    go("hit-on-page-of-invisible-owner", "[[hit]]", c, p, q, extra=(inner, hpar))
    return rows
