"""Translator for C19: tables of the write-out mechanism, regenerated from the repo on every run.

  symbolReplacements : the dict literal iterated in `NameSelector.get_name` (ford/sourceform.py)
  outDirs            : the list literal of the first `for directory in [...]` loop of
                       `Documentation.writeout` that calls `.mkdir` (ford/output.py)
  libDirs            : the list literal of the loop that calls `copytree(loc / directory, ...)`
  copytreeSymlinks / copytreeIgnoreDangling / copytreeDirsExistOk
                     : the keyword arguments `symlinks`, `ignore_dangling_symlinks`, `dirs_exist_ok` of
                       the `shutil.copytree` call inside the module-level wrapper `copytree` (ford/output.py;
                       absent = the library default False), which decide what the copy of a tree that
                       contains symbolic links consists of; the copy function must be `shutil.copy`
  wipeWholeTree / wipeFailureFatal
                     : the clean-up at the start of `Documentation.writeout` (the statements before the loop that
                       creates the fixed sub-directories): is the old output removed by one `shutil.rmtree(<out_dir>)`
                       on the output directory itself (which unlinks every symbolic link below it without following
                       it); does a failing `<out_dir>.mkdir(...)` - the directory is still there - end the run
  graphSkipsLinks    : does `FortranGraph._create_image_file` (ford/graphs.py) test `is_symlink` before it lets
                       graphviz write (the graph directory is never cleaned: links left in it are still there)
  fixedNames         : every string constant that `writeout`, `BasePage` subclasses (`out_page`,
                       `template_path` of ListTopPage), `print_output` and `dump_modules` join to the
                       output directory with `/`
"""
from __future__ import annotations

import ast
from pathlib import Path

from harness import common


def _find_func(tree, cls, name):
    for node in ast.walk(tree):
        if isinstance(node, ast.ClassDef) and node.name == cls:
            for f in node.body:
                if isinstance(f, ast.FunctionDef) and f.name == name:
                    return f
    raise LookupError(f"{cls}.{name} not found")


def copytree_kwargs(tree) -> dict:
    """Keyword arguments of the one `shutil.copytree(...)` call in the module-level function `copytree`."""
    fn = next((n for n in tree.body if isinstance(n, ast.FunctionDef) and n.name == "copytree"), None)
    if fn is None:
        raise LookupError("module-level function copytree not found in ford/output.py")
    calls = [n for n in ast.walk(fn) if isinstance(n, ast.Call) and ast.unparse(n.func) == "shutil.copytree"]
    if len(calls) != 1:
        raise LookupError(f"expected exactly one shutil.copytree call in ford.output.copytree, found {len(calls)}")
    call = calls[0]
    if len(call.args) > 2:
        raise LookupError("shutil.copytree is called with more than two positional arguments")
    res = {"symlinks": False, "ignore_dangling_symlinks": False, "dirs_exist_ok": False}
    copy_fn = "shutil.copy2"
    for k in call.keywords:
        if k.arg is None:
            raise LookupError("shutil.copytree is called with **kwargs")
        if k.arg == "copy_function":
            copy_fn = ast.unparse(k.value)
        elif k.arg in res:
            if not (isinstance(k.value, ast.Constant) and isinstance(k.value.value, bool)):
                raise LookupError(f"keyword {k.arg} of shutil.copytree is not a Boolean literal")
            res[k.arg] = k.value.value
        elif k.arg == "ignore":
            raise LookupError("shutil.copytree is called with an ignore= callback (not modelled)")
    if copy_fn != "shutil.copy":
        raise LookupError(f"copy_function of shutil.copytree is {copy_fn}, the model assumes shutil.copy")
    return res


_REMOVERS = {"unlink", "rmdir", "remove", "rmtree", "rename", "replace", "removedirs", "move"}
_LISTERS = {"iterdir", "scandir", "listdir", "glob", "rglob", "walk"}


def wipe_shape(wo: ast.FunctionDef) -> dict:
    """The clean-up of the old output directory in `Documentation.writeout`."""
    var = None
    for st in wo.body:
        if isinstance(st, (ast.Assign, ast.AnnAssign)):
            tgt = st.targets[0] if isinstance(st, ast.Assign) else st.target
            if isinstance(tgt, ast.Name) and st.value is not None and "output_dir" in ast.unparse(st.value):
                var = tgt.id
                break
    if var is None:
        raise LookupError("Documentation.writeout: the variable holding the output directory was not found")
    section = []
    for st in wo.body:
        if isinstance(st, ast.For) and isinstance(st.iter, ast.List) and ".mkdir(" in ast.unparse(st):
            break
        section.append(st)
    else:
        raise LookupError("Documentation.writeout: the loop creating the fixed sub-directories was not found")
    calls = [n for st in section for n in ast.walk(st) if isinstance(n, ast.Call)]

    def attr(c):
        return c.func.attr if isinstance(c.func, ast.Attribute) else (c.func.id if isinstance(c.func, ast.Name) else "")

    def on_out(c):  # the call acts on the output directory itself
        if isinstance(c.func, ast.Attribute) and isinstance(c.func.value, ast.Name) and c.func.value.id == var:
            return True
        return bool(c.args) and isinstance(c.args[0], ast.Name) and c.args[0].id == var

    rmtrees = [c for c in calls if attr(c) == "rmtree"]
    whole = len(rmtrees) == 1 and on_out(rmtrees[0]) and ast.unparse(rmtrees[0].func) == "shutil.rmtree"
    others = [c for c in calls if attr(c) in _REMOVERS | _LISTERS and c not in rmtrees
              and not (attr(c) == "unlink" and on_out(c))]
    if not rmtrees and not others:
        raise LookupError("Documentation.writeout: no clean-up of the old output directory found")
    if whole and others:
        raise LookupError("Documentation.writeout: the clean-up does more than rmtree(<out_dir>) (not modelled): "
                          + ", ".join(ast.unparse(c)[:60] for c in others))
    # <out_dir>.mkdir(...): fatal when it fails?
    mk = [c for c in calls if attr(c) == "mkdir" and on_out(c)]
    if len(mk) != 1:
        raise LookupError(f"Documentation.writeout: expected one {var}.mkdir(...) in the clean-up, found {len(mk)}")
    exist_ok = any(k.arg == "exist_ok" and not (isinstance(k.value, ast.Constant) and k.value.value is False)
                   for k in mk[0].keywords)
    fatal = not exist_ok
    for st in section:
        for t in ast.walk(st):
            if isinstance(t, ast.Try) and any(mk[0] is n for b in t.body for n in ast.walk(b)):
                for h in t.handlers:
                    ends = any(isinstance(n, ast.Raise) or (isinstance(n, ast.Call) and ast.unparse(n.func) in
                                                             ("sys.exit", "exit", "quit", "os._exit"))
                               for b in h.body for n in ast.walk(b))
                    if not ends:
                        fatal = False
    return {"wipeWholeTree": whole, "wipeFailureFatal": fatal}


def graph_skips_links(repo: Path) -> bool:
    gr = ast.parse((repo / "ford" / "graphs.py").read_text())
    fn = _find_func(gr, "FortranGraph", "_create_image_file")
    src_calls = [n for n in ast.walk(fn) if isinstance(n, ast.Call)]
    if not any(isinstance(c.func, ast.Attribute) and c.func.attr == "render" for c in src_calls):
        raise LookupError("FortranGraph._create_image_file: the graphviz render call was not found")
    if any(isinstance(c.func, ast.Attribute) and c.func.attr in _REMOVERS - {"rename"} for c in src_calls):
        raise LookupError("FortranGraph._create_image_file removes files (not modelled)")
    return any(isinstance(c.func, ast.Attribute) and c.func.attr in ("is_symlink", "islink") for c in src_calls)


def lean_bool(b: bool) -> str:
    return "true" if b else "false"


def lean_str(s: str) -> str:
    return '"' + s.replace("\\", "\\\\").replace('"', '\\"') + '".toList'


def extract(repo: Path | None = None) -> dict:
    repo = repo or common.REPO
    sf = ast.parse((repo / "ford" / "sourceform.py").read_text())
    get_name = _find_func(sf, "NameSelector", "get_name")
    repl = None
    for node in ast.walk(get_name):
        if isinstance(node, ast.For) and isinstance(node.iter, ast.Call) and isinstance(node.iter.func, ast.Attribute) \
                and node.iter.func.attr == "items" and isinstance(node.iter.func.value, ast.Dict):
            d = node.iter.func.value
            repl = [(ast.literal_eval(k), ast.literal_eval(v)) for k, v in zip(d.keys, d.values)]
    if not repl or any(len(k) != 1 for k, _ in repl):
        raise LookupError("symbol replacement dict of NameSelector.get_name not found (or a key is not one character)")
    out = ast.parse((repo / "ford" / "output.py").read_text())
    wo = _find_func(out, "Documentation", "writeout")
    out_dirs = lib_dirs = None
    for node in ast.walk(wo):
        if isinstance(node, ast.For) and isinstance(node.iter, ast.List):
            names = [ast.literal_eval(e) for e in node.iter.elts]
            src = ast.unparse(node)
            if ".mkdir(" in src and out_dirs is None:
                out_dirs = names
            elif "copytree(" in src and lib_dirs is None:
                lib_dirs = names
    if not out_dirs or not lib_dirs:
        raise LookupError("directory lists of Documentation.writeout not found")
    # fixed names joined to out_dir inside writeout (string constants on the right of `/`)
    fixed = []
    for node in ast.walk(wo):
        if isinstance(node, ast.BinOp) and isinstance(node.op, ast.Div) and isinstance(node.right, ast.Constant) \
                and isinstance(node.right.value, str):
            fixed.append(node.right.value)
    # out_page / template_path of the list pages and top pages
    pages = {}
    for node in out.body:
        if isinstance(node, ast.ClassDef):
            for st in node.body:
                if isinstance(st, ast.Assign) and len(st.targets) == 1 and isinstance(st.targets[0], ast.Name) \
                        and st.targets[0].id in ("out_page",) and isinstance(st.value, ast.Constant):
                    pages[node.name] = st.value.value
    if not pages:
        raise LookupError("out_page constants of the list pages not found")
    kw = copytree_kwargs(out)
    wipe = wipe_shape(wo)
    return {"wipeWholeTree": wipe["wipeWholeTree"], "wipeFailureFatal": wipe["wipeFailureFatal"],
            "graphSkipsLinks": graph_skips_links(repo), "copytreeSymlinks": kw["symlinks"], "copytreeIgnoreDangling": kw["ignore_dangling_symlinks"],
            "copytreeDirsExistOk": kw["dirs_exist_ok"], "symbolReplacements": repl, "outDirs": out_dirs, "libDirs": lib_dirs,
            "fixedNames": sorted(set(fixed)), "listPages": sorted(pages.values())}


def generate(repo: Path | None = None) -> dict:
    t = extract(repo)
    L = ["/- GENERATED by translate/c19.py from ford/sourceform.py and ford/output.py - do not edit -/",
         "import FordModel.Basic.Chars", "namespace Ford.Generated.C19", "",
         "/-- `symlinks=` of the `shutil.copytree` call in `ford.output.copytree` (links kept as links) -/",
         "def copytreeSymlinks : Bool := " + lean_bool(t["copytreeSymlinks"]), "",
         "/-- `ignore_dangling_symlinks=` of the same call -/",
         "def copytreeIgnoreDangling : Bool := " + lean_bool(t["copytreeIgnoreDangling"]), "",
         "/-- `dirs_exist_ok=` of the same call -/",
         "def copytreeDirsExistOk : Bool := " + lean_bool(t["copytreeDirsExistOk"]), "",
         "/-- the clean-up in `Documentation.writeout` is `shutil.rmtree(<out_dir>)` on the output directory itself -/",
         "def wipeWholeTree : Bool := " + lean_bool(t["wipeWholeTree"]), "",
         "/-- a failing `<out_dir>.mkdir(...)` after the clean-up ends the run -/",
         "def wipeFailureFatal : Bool := " + lean_bool(t["wipeFailureFatal"]), "",
         "/-- `FortranGraph._create_image_file` tests `is_symlink` before graphviz writes -/",
         "def graphSkipsLinks : Bool := " + lean_bool(t["graphSkipsLinks"]), "",
         "/-- the dict literal of `NameSelector.get_name` -/",
         "def symbolReplacements : List (Char × Str) := ["
         + ", ".join(f"('{k}', {lean_str(v)})" if k not in "'\\" else f"(Char.ofNat {ord(k)}, {lean_str(v)})" for k, v in t["symbolReplacements"]) + "]", "",
         "/-- fixed sub-directories created by `Documentation.writeout` -/",
         "def outDirs : List Str := [" + ", ".join(lean_str(d) for d in t["outDirs"]) + "]", "",
         "/-- installation directories copied by `Documentation.writeout` -/",
         "def libDirs : List Str := [" + ", ".join(lean_str(d) for d in t["libDirs"]) + "]", "",
         "/-- string constants joined to the output directory in `writeout` -/",
         "def fixedNames : List Str := [" + ", ".join(lean_str(d) for d in t["fixedNames"]) + "]", "",
         "/-- `out_page` of the list pages -/",
         "def listPages : List Str := [" + ", ".join(lean_str(d) for d in t["listPages"]) + "]", "",
         "end Ford.Generated.C19", ""]
    common.write_if_changed(common.LEAN / "FordModel" / "Generated" / "C19.lean", "\n".join(L))
    return t
