"""Translator for C19: tables of the write-out mechanism, regenerated from the repo on every run.

  symbolReplacements : the dict literal iterated in `NameSelector.get_name` (ford/sourceform.py)
  outDirs            : the list literal of the first `for directory in [...]` loop of
                       `Documentation.writeout` that calls `.mkdir` (ford/output.py)
  libDirs            : the list literal of the loop that calls `copytree(loc / directory, ...)`
  copytreeSymlinks / copytreeIgnoreDangling / copytreeDirsExistOk
                     : the keyword arguments `symlinks`, `ignore_dangling_symlinks`, `dirs_exist_ok` of
                       the `shutil.copytree` call inside the module-level wrapper `copytree` (ford/output.py;
                       absent = the library default False), which decide what the copy of a tree that
                       contains symbolic links consists of; the copy function must be `shutil.copy`
  fixedNames         : every string constant that `writeout`, `BasePage` subclasses (`out_page`,
                       `template_path` of ListTopPage), `print_output` and `dump_modules` join to the
                       output directory with `/`
"""
from __future__ import annotations

import ast
from pathlib import Path

from harness import common


def _find_func(tree, cls, name):
    for node in ast.walk(tree):
        if isinstance(node, ast.ClassDef) and node.name == cls:
            for f in node.body:
                if isinstance(f, ast.FunctionDef) and f.name == name:
                    return f
    raise LookupError(f"{cls}.{name} not found")


def copytree_kwargs(tree) -> dict:
    """Keyword arguments of the one `shutil.copytree(...)` call in the module-level function `copytree`."""
    fn = next((n for n in tree.body if isinstance(n, ast.FunctionDef) and n.name == "copytree"), None)
    if fn is None:
        raise LookupError("module-level function copytree not found in ford/output.py")
    calls = [n for n in ast.walk(fn) if isinstance(n, ast.Call) and ast.unparse(n.func) == "shutil.copytree"]
    if len(calls) != 1:
        raise LookupError(f"expected exactly one shutil.copytree call in ford.output.copytree, found {len(calls)}")
    call = calls[0]
    if len(call.args) > 2:
        raise LookupError("shutil.copytree is called with more than two positional arguments")
    res = {"symlinks": False, "ignore_dangling_symlinks": False, "dirs_exist_ok": False}
    copy_fn = "shutil.copy2"
    for k in call.keywords:
        if k.arg is None:
            raise LookupError("shutil.copytree is called with **kwargs")
        if k.arg == "copy_function":
            copy_fn = ast.unparse(k.value)
        elif k.arg in res:
            if not (isinstance(k.value, ast.Constant) and isinstance(k.value.value, bool)):
                raise LookupError(f"keyword {k.arg} of shutil.copytree is not a Boolean literal")
            res[k.arg] = k.value.value
        elif k.arg == "ignore":
            raise LookupError("shutil.copytree is called with an ignore= callback (not modelled)")
    if copy_fn != "shutil.copy":
        raise LookupError(f"copy_function of shutil.copytree is {copy_fn}, the model assumes shutil.copy")
    return res


def lean_bool(b: bool) -> str:
    return "true" if b else "false"


def lean_str(s: str) -> str:
    return '"' + s.replace("\\", "\\\\").replace('"', '\\"') + '".toList'


def extract(repo: Path | None = None) -> dict:
    repo = repo or common.REPO
    sf = ast.parse((repo / "ford" / "sourceform.py").read_text())
    get_name = _find_func(sf, "NameSelector", "get_name")
    repl = None
    for node in ast.walk(get_name):
        if isinstance(node, ast.For) and isinstance(node.iter, ast.Call) and isinstance(node.iter.func, ast.Attribute) \
                and node.iter.func.attr == "items" and isinstance(node.iter.func.value, ast.Dict):
            d = node.iter.func.value
            repl = [(ast.literal_eval(k), ast.literal_eval(v)) for k, v in zip(d.keys, d.values)]
    if not repl or any(len(k) != 1 for k, _ in repl):
        raise LookupError("symbol replacement dict of NameSelector.get_name not found (or a key is not one character)")
    out = ast.parse((repo / "ford" / "output.py").read_text())
    wo = _find_func(out, "Documentation", "writeout")
    out_dirs = lib_dirs = None
    for node in ast.walk(wo):
        if isinstance(node, ast.For) and isinstance(node.iter, ast.List):
            names = [ast.literal_eval(e) for e in node.iter.elts]
            src = ast.unparse(node)
            if ".mkdir(" in src and out_dirs is None:
                out_dirs = names
            elif "copytree(" in src and lib_dirs is None:
                lib_dirs = names
    if not out_dirs or not lib_dirs:
        raise LookupError("directory lists of Documentation.writeout not found")
    # fixed names joined to out_dir inside writeout (string constants on the right of `/`)
    fixed = []
    for node in ast.walk(wo):
        if isinstance(node, ast.BinOp) and isinstance(node.op, ast.Div) and isinstance(node.right, ast.Constant) \
                and isinstance(node.right.value, str):
            fixed.append(node.right.value)
    # out_page / template_path of the list pages and top pages
    pages = {}
    for node in out.body:
        if isinstance(node, ast.ClassDef):
            for st in node.body:
                if isinstance(st, ast.Assign) and len(st.targets) == 1 and isinstance(st.targets[0], ast.Name) \
                        and st.targets[0].id in ("out_page",) and isinstance(st.value, ast.Constant):
                    pages[node.name] = st.value.value
    if not pages:
        raise LookupError("out_page constants of the list pages not found")
    kw = copytree_kwargs(out)
    return {"copytreeSymlinks": kw["symlinks"], "copytreeIgnoreDangling": kw["ignore_dangling_symlinks"],
            "copytreeDirsExistOk": kw["dirs_exist_ok"], "symbolReplacements": repl, "outDirs": out_dirs, "libDirs": lib_dirs,
            "fixedNames": sorted(set(fixed)), "listPages": sorted(pages.values())}


def generate(repo: Path | None = None) -> dict:
    t = extract(repo)
    L = ["/- GENERATED by translate/c19.py from ford/sourceform.py and ford/output.py - do not edit -/",
         "import FordModel.Basic.Chars", "namespace Ford.Generated.C19", "",
         "/-- `symlinks=` of the `shutil.copytree` call in `ford.output.copytree` (links kept as links) -/",
         "def copytreeSymlinks : Bool := " + lean_bool(t["copytreeSymlinks"]), "",
         "/-- `ignore_dangling_symlinks=` of the same call -/",
         "def copytreeIgnoreDangling : Bool := " + lean_bool(t["copytreeIgnoreDangling"]), "",
         "/-- `dirs_exist_ok=` of the same call -/",
         "def copytreeDirsExistOk : Bool := " + lean_bool(t["copytreeDirsExistOk"]), "",
         "/-- the dict literal of `NameSelector.get_name` -/",
         "def symbolReplacements : List (Char × Str) := ["
         + ", ".join(f"('{k}', {lean_str(v)})" if k not in "'\\" else f"(Char.ofNat {ord(k)}, {lean_str(v)})" for k, v in t["symbolReplacements"]) + "]", "",
         "/-- fixed sub-directories created by `Documentation.writeout` -/",
         "def outDirs : List Str := [" + ", ".join(lean_str(d) for d in t["outDirs"]) + "]", "",
         "/-- installation directories copied by `Documentation.writeout` -/",
         "def libDirs : List Str := [" + ", ".join(lean_str(d) for d in t["libDirs"]) + "]", "",
         "/-- string constants joined to the output directory in `writeout` -/",
         "def fixedNames : List Str := [" + ", ".join(lean_str(d) for d in t["fixedNames"]) + "]", "",
         "/-- `out_page` of the list pages -/",
         "def listPages : List Str := [" + ", ".join(lean_str(d) for d in t["listPages"]) + "]", "",
         "end Ford.Generated.C19", ""]
    common.write_if_changed(common.LEAN / "FordModel" / "Generated" / "C19.lean", "\n".join(L))
    return t
