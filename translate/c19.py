"""Translator for C19: tables of the write-out mechanism, regenerated from the repo on every run.

Round 5: the tables are tied to what the code *does*, not to how it is spelled.  Every decision is observed by running
the real code on a small input (harness/c19_probe.py; 0.6 s in all):

  symbolReplacements : the substitution `NameSelector.get_name` (ford/sourceform.py) applies to a name, probed character
                       by character over an alphabet and validated on words (wherever the table lives: literal in the
                       method, class constant, module constant ...)
  outDirs            : the directories a real run creates directly below the output directory right after (re-)creating
                       it, in order
  libDirs            : the installation trees (`ford/<name>`) a real run copies next, in order
  copytreeSymlinks / copytreeIgnoreDangling / copytreeDirsExistOk
                     : what the wrapper `ford.output.copytree` does with a tree that contains symbolic links (to a file,
                       to a directory, outside, dangling) and with an existing destination; the probe also checks what
                       the model assumes besides (one file = `open` + `chmod`, then FORD's `touch`; every entry copied)
  wipeWholeTree / wipeFailureFatal
                     : the clean-up at the start of the write-out, observed on an old output directory that holds
                       files, directories, dot-entries and symbolic links at two depths: is nothing left of it when the
                       directory is created again (so no link survives), were removals below it all that happened; and
                       when the removal of one link fails: does the run end without doing anything else
  graphSkipsLinks    : does `FortranGraph.create_svg` (ford/graphs.py; stub graph, real graphviz) leave alone what a
                       symbolic link under `<graph_dir>/<imgfile>` / `<imgfile>.svg` points to
  listPages          : `out_page` of the page classes of ford.output, looked up on the class objects
  fixedNames         : every string constant that `Documentation.writeout` - and the functions / methods of the module it
                       calls, transitively - puts to the right of a `/` (or into `joinpath`); names are resolved to the
                       module- / class-level / local constant they are bound to.  Read from the source (AST).
"""
from __future__ import annotations

import ast
from pathlib import Path

from harness import common


def _find_func(tree, cls, name):
    for node in ast.walk(tree):
        if isinstance(node, ast.ClassDef) and node.name == cls:
            for f in node.body:
                if isinstance(f, ast.FunctionDef) and f.name == name:
                    return f
    raise LookupError(f"{cls}.{name} not found")


# ---------------------------------------------------------------------------------------------
# string constants joined with `/` in the write-out: read from the source, but by meaning - a name is resolved to
# the module- / class-level constant it is bound to, and a block that was moved into a helper function (a
# module-level function or a method of the same class) is followed
# ---------------------------------------------------------------------------------------------


def _literal(node):
    try:
        return ast.literal_eval(node)
    except Exception:
        return None


class _Module:
    def __init__(self, tree: ast.Module):
        self.funcs = {n.name: n for n in tree.body if isinstance(n, ast.FunctionDef)}
        self.classes = {n.name: n for n in tree.body if isinstance(n, ast.ClassDef)}
        self.consts = {}
        for n in tree.body:
            self._bind(n, self.consts)
        self.class_consts = {}
        for c in self.classes.values():
            env = self.class_consts.setdefault(c.name, {})
            for n in c.body:
                self._bind(n, env)

    @staticmethod
    def _bind(st, env):
        if isinstance(st, ast.Assign) and len(st.targets) == 1 and isinstance(st.targets[0], ast.Name):
            v = _literal(st.value)
            if v is not None:
                env[st.targets[0].id] = v
        elif isinstance(st, ast.AnnAssign) and isinstance(st.target, ast.Name) and st.value is not None:
            v = _literal(st.value)
            if v is not None:
                env[st.target.id] = v

    def method(self, cls, name):
        c = self.classes.get(cls)
        return next((f for f in (c.body if c else []) if isinstance(f, ast.FunctionDef) and f.name == name), None)

    def value(self, node, cls=None, local=None):
        """the constant an expression stands for (None = not a constant)"""
        v = _literal(node)
        if v is not None:
            return v
        if isinstance(node, ast.Name):
            if local and node.id in local:
                return local[node.id]
            return self.consts.get(node.id)
        if isinstance(node, ast.Attribute) and isinstance(node.value, ast.Name):
            owner = cls if node.value.id in ("self", "cls") else node.value.id
            return self.class_consts.get(owner, {}).get(node.attr)
        return None

    def reachable(self, cls, fn):
        """`fn` and the functions of this module it calls (by name / as `self.<method>`), transitively"""
        seen, todo, out = set(), [(cls, fn)], []
        while todo:
            c, f = todo.pop()
            if id(f) in seen:
                continue
            seen.add(id(f))
            out.append((c, f))
            for n in ast.walk(f):
                if not isinstance(n, ast.Call):
                    continue
                if isinstance(n.func, ast.Name) and n.func.id in self.funcs:
                    todo.append((None, self.funcs[n.func.id]))
                elif isinstance(n.func, ast.Attribute) and isinstance(n.func.value, ast.Name) \
                        and n.func.value.id in ("self", "cls") and c is not None:
                    m = self.method(c, n.func.attr)
                    if m is not None:
                        todo.append((c, m))
        return out


def fixed_names(tree: ast.Module) -> list[str]:
    mod = _Module(tree)
    wo = mod.method("Documentation", "writeout")
    if wo is None:
        raise LookupError("Documentation.writeout not found")
    fixed = set()
    for cls, fn in mod.reachable("Documentation", wo):
        local = {}
        for st in ast.walk(fn):
            _Module._bind(st, local)
        for node in ast.walk(fn):
            if isinstance(node, ast.BinOp) and isinstance(node.op, ast.Div):
                v = mod.value(node.right, cls, local)
                if isinstance(v, str):
                    fixed.add(v)
                elif isinstance(v, (list, tuple)):
                    fixed.update(x for x in v if isinstance(x, str))
            elif isinstance(node, ast.Call) and isinstance(node.func, ast.Attribute) and node.func.attr == "joinpath":
                for a in node.args:
                    v = mod.value(a, cls, local)
                    if isinstance(v, str):
                        fixed.add(v)
    return sorted(fixed)


def list_pages() -> list[str]:
    """`out_page` of every page class of ford.output that has one (looked up on the class objects: however it is
    defined - literal, table, inherited)"""
    common.import_ford()
    import inspect

    import ford.output as fo

    pages = {getattr(c, "out_page") for _n, c in inspect.getmembers(fo, inspect.isclass)
             if c.__module__ == fo.__name__ and isinstance(getattr(c, "out_page", None), str)}
    if not pages:
        raise LookupError("out_page constants of the list pages not found")
    return sorted(pages)


def lean_bool(b: bool) -> str:
    return "true" if b else "false"


def lean_str(s: str) -> str:
    return '"' + s.replace("\\", "\\\\").replace('"', '\\"') + '".toList'


def extract(repo: Path | None = None) -> dict:
    """The decisions are *observed* (harness/c19_probe.py: the real code runs on small inputs); only the constants the
    write-out joins to the output directory are read from the source."""
    from harness import c19_probe as probe

    repo = repo or common.REPO
    if Path(repo).resolve() != Path(common.REPO).resolve():
        raise LookupError("the probes run the implementation under test (common.REPO) only")
    out = ast.parse((repo / "ford" / "output.py").read_text())
    w = probe.probe_writeout()
    kw = probe.probe_copytree()
    return {"wipeWholeTree": w["wipeWholeTree"], "wipeFailureFatal": probe.probe_wipe_failure(),
            "graphSkipsLinks": probe.probe_graph_links(), "excludeOutputByPath": probe.probe_exclude_output(),
            "copytreeSymlinks": kw["symlinks"],
            "copytreeIgnoreDangling": kw["ignore_dangling_symlinks"], "copytreeDirsExistOk": kw["dirs_exist_ok"],
            "symbolReplacements": probe.probe_symbols(), "outDirs": w["outDirs"], "libDirs": w["libDirs"],
            "fixedNames": fixed_names(out), "listPages": list_pages()}


def generate(repo: Path | None = None) -> dict:
    t = extract(repo)
    L = ["/- GENERATED by translate/c19.py (probes of the real code + ford/output.py) - do not edit -/",
         "import FordModel.Basic.Chars", "namespace Ford.Generated.C19", "",
         "/-- `ford.output.copytree` copies a symbolic link as a link (observed; `symlinks=True` of `shutil.copytree`) -/",
         "def copytreeSymlinks : Bool := " + lean_bool(t["copytreeSymlinks"]), "",
         "/-- ... passes silently over a link that points nowhere (observed; `ignore_dangling_symlinks=True`) -/",
         "def copytreeIgnoreDangling : Bool := " + lean_bool(t["copytreeIgnoreDangling"]), "",
         "/-- ... accepts a destination that exists (observed; `dirs_exist_ok=True`) -/",
         "def copytreeDirsExistOk : Bool := " + lean_bool(t["copytreeDirsExistOk"]), "",
         "/-- observed on a real run: nothing of the old output directory (files, directories, dot-entries, symbolic links) is left\n    when it is created again, and all the run did before were removals below it (`shutil.rmtree(<out_dir>)`) -/",
         "def wipeWholeTree : Bool := " + lean_bool(t["wipeWholeTree"]), "",
         "/-- observed on a real run: when the removal of a link of the old output directory fails the run ends without further attempts -/",
         "def wipeFailureFatal : Bool := " + lean_bool(t["wipeFailureFatal"]), "",
         "/-- observed: `FortranGraph.create_svg` does not write through a symbolic link under `<imgfile>` / `<imgfile>.svg` -/",
         "def graphSkipsLinks : Bool := " + lean_bool(t["graphSkipsLinks"]), "",
         "/-- observed: the source search drops the files below the output directory also when the directory's path contains a\n    bracket expression (`w [v2]/...`), i.e. by location and not only by `fnmatch` pattern -/",
         "def excludeOutputByPath : Bool := " + lean_bool(t["excludeOutputByPath"]), "",
         "/-- the per-character substitution of `NameSelector.get_name` (probed over an alphabet, validated on words) -/",
         "def symbolReplacements : List (Char × Str) := ["
         + ", ".join(f"('{k}', {lean_str(v)})" if (k.isascii() and k.isprintable() and k not in "'\\") else f"(Char.ofNat {ord(k)}, {lean_str(v)})" for k, v in t["symbolReplacements"]) + "]", "",
         "/-- fixed sub-directories a real run creates right after the output directory, in order -/",
         "def outDirs : List Str := [" + ", ".join(lean_str(d) for d in t["outDirs"]) + "]", "",
         "/-- installation directories a real run copies next, in order -/",
         "def libDirs : List Str := [" + ", ".join(lean_str(d) for d in t["libDirs"]) + "]", "",
         "/-- string constants joined to the output directory in `writeout` and the helpers it calls -/",
         "def fixedNames : List Str := [" + ", ".join(lean_str(d) for d in t["fixedNames"]) + "]", "",
         "/-- `out_page` of the list pages -/",
         "def listPages : List Str := [" + ", ".join(lean_str(d) for d in t["listPages"]) + "]", "",
         "end Ford.Generated.C19", ""]
    common.write_if_changed(common.LEAN / "FordModel" / "Generated" / "C19.lean", "\n".join(L))
    return t
