"""Helpers that let a translator follow the MEANING of a piece of Python source instead of its spelling.

`inline_helper_calls(stmts, tree)`: a statement `x = f(a, b)` (or `x = self.f(a, b)` / `x = Cls.f(a, b)` for a
function found at module level or in the given class) whose callee is a small straight-line helper ending in one
`return <expr>` is replaced by the helper's body with the parameters replaced by the argument expressions and the
`return` turned into `x = <expr>` (a self-assignment `x = x` is dropped).  A block that a maintainer extracted into
a helper function therefore reads, to the extractor that follows, as if it were still written in place.  Locals of
the helper keep their names (extractors that pin names compare after this step, so a renamed local still shows).
"""
from __future__ import annotations

import ast
import copy


class _Subst(ast.NodeTransformer):
    def __init__(self, mapping):
        self.mapping = mapping

    def visit_Name(self, node):
        if node.id in self.mapping:
            return copy.deepcopy(self.mapping[node.id])
        return node


def _strip_doc(body):
    if body and isinstance(body[0], ast.Expr) and isinstance(body[0].value, ast.Constant) and isinstance(body[0].value.value, str):
        return body[1:]
    return body


def _callee(call: ast.Call, tree: ast.Module, cls: ast.ClassDef | None):
    """(FunctionDef, number of leading parameters bound implicitly) for a call of a module-level function or of a
    method of `cls` through self / the class name; None when the callee is not such a function"""
    f = call.func
    if isinstance(f, ast.Name):
        for n in tree.body:
            if isinstance(n, ast.FunctionDef) and n.name == f.id:
                return n, 0
    if isinstance(f, ast.Attribute) and isinstance(f.value, ast.Name) and cls is not None and f.value.id in ("self", "cls", cls.name):
        for n in cls.body:
            if isinstance(n, ast.FunctionDef) and n.name == f.attr:
                static = any(isinstance(d, ast.Name) and d.id == "staticmethod" for d in n.decorator_list)
                return n, 0 if static else 1
    return None


def _inline(target, call, fn, skip):
    params = [a.arg for a in fn.args.args][skip:]
    if fn.args.vararg or fn.args.kwarg or fn.args.kwonlyargs or len(call.args) + len(call.keywords) > len(params):
        return None
    mapping = dict(zip(params, call.args))
    for kw in call.keywords:
        if kw.arg is None or kw.arg not in params or kw.arg in mapping:
            return None
        mapping[kw.arg] = kw.value
    defaults = fn.args.defaults
    for p, d in zip(params[len(params) - len(defaults):], defaults):
        mapping.setdefault(p, d)
    if set(params) - set(mapping):
        return None
    body = _strip_doc(list(fn.body))
    if target is None and body and not isinstance(body[-1], ast.Return):
        body = body + [ast.Return(value=ast.Constant(value=None))]  # a procedure: nothing to hand back
    if not body or not isinstance(body[-1], ast.Return) or body[-1].value is None:
        return None
    if any(isinstance(x, ast.Return) for st in body[:-1] for x in ast.walk(st)):
        return None  # early returns: not a straight-line helper
    # a parameter that the helper assigns to must be bound to a plain name (else the substitution is meaningless)
    assigned = {t.id for st in body for x in ast.walk(st) if isinstance(x, (ast.Assign, ast.AugAssign, ast.NamedExpr))
                for t in ([x.target] if not isinstance(x, ast.Assign) else x.targets) if isinstance(t, ast.Name)}
    for p in assigned & set(params):
        if not isinstance(mapping[p], ast.Name):
            return None
    sub = _Subst(mapping)
    out = [ast.fix_missing_locations(sub.visit(copy.deepcopy(st))) for st in body[:-1]]
    ret = sub.visit(copy.deepcopy(body[-1].value))
    if target is not None and ast.unparse(ret) != ast.unparse(target):
        out.append(ast.fix_missing_locations(ast.Assign(targets=[copy.deepcopy(target)], value=ret, lineno=0, col_offset=0)))
    return out


def inline_helper_calls(stmts, tree: ast.Module, cls: ast.ClassDef | None = None, depth: int = 2):
    """see the module docstring; statements that are not such calls are returned unchanged (same objects)"""
    out = []
    for st in stmts:
        rep = None
        if depth > 0:
            if isinstance(st, ast.Assign) and len(st.targets) == 1 and isinstance(st.value, ast.Call):
                c = _callee(st.value, tree, cls)
                if c:
                    rep = _inline(st.targets[0], st.value, *c)
            elif isinstance(st, ast.Expr) and isinstance(st.value, ast.Call):
                c = _callee(st.value, tree, cls)
                if c:
                    rep = _inline(None, st.value, *c)
        if rep is None:
            out.append(st)
        else:
            out.extend(inline_helper_calls(rep, tree, cls, depth - 1))
    return out
