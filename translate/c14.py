"""Translator for C14: the tables of ford/fixed2free2.py (comment characters, column
constants, OpenMP sentinel, overflow mark, variant flags) and the extension lists of a
default project -> lean/FordModel/Generated/C14.lean.

Round 5: the tables are no longer read off the *spelling* of the assignments in
`FortranLine.__analyse` (an `ast` pattern per statement broke on every harmless rewrite:
a literal hoisted to a constant, a renamed local, De Morgan on a condition, a helper
function).  They are derived from the *meaning* of the code: the real `FortranLine` is
run on stub lines and each table is the set / threshold / literal that explains what it
does - and the translator raises (tie broken, never a pass) when the behaviour does not
have the expected shape (a threshold that is not one, an overflow text that is not
`<literal> + line[k:]`, no or several OpenMP sentinels, ...).  The only thing still taken
from the source text is the list of *candidate* sentinels (every string constant of the
module), each of which is then tested on the real code.

Public behaviour used: `FortranLine(line, length_limit)`, `str(...)`, `.is_regular`,
`.isContinuation`, `.excess_line`, `.continueLine()`.
"""
from __future__ import annotations

import ast
import importlib
from pathlib import Path

from harness import common


def _lean_str(s: str) -> str:
    return "[" + ", ".join("Char.ofNat %d" % ord(c) for c in s) + "]"


def _lean_strs(xs) -> str:
    return "[" + ", ".join(_lean_str(x) for x in xs) + "]"


PROBE_CHARS = [chr(i) for i in range(1, 256) if chr(i) not in "\n\r"] + ["С", "　"]


def _fortran_line(repo: Path):
    common.import_ford()
    mod = importlib.import_module("ford.fixed2free2")
    got = Path(mod.__file__).resolve()
    if Path(repo).resolve() not in got.parents:
        raise LookupError(f"ford.fixed2free2 imported from {got}, not from {repo}")
    return mod, mod.FortranLine


def _threshold(pred, lo, hi, what):
    """the n0 such that pred(n) holds exactly for n <= n0 (lo <= n <= hi); raises when pred is not of that shape"""
    vals = [bool(pred(n)) for n in range(lo, hi + 1)]
    if not vals[0] or vals[-1]:
        raise LookupError(f"fixed2free2.FortranLine: {what} is not a threshold on the line length")
    n0 = lo + vals.index(False) - 1
    if any(vals[i] != (lo + i <= n0) for i in range(len(vals))):
        raise LookupError(f"fixed2free2.FortranLine: {what} is not monotone in the line length")
    return n0


def extract(repo: Path) -> dict:
    mod, FL = _fortran_line(repo)
    out = {}

    def probe(line, lim=True):
        try:
            return FL(line, lim)
        except Exception as e:   # noqa: BLE001
            raise LookupError(f"fixed2free2.FortranLine raised {type(e).__name__} on the probe line {line!r}") from e

    # --- comment characters: column 1 makes the line a comment that is rewritten to `!...`
    def is_comment_char(c):
        line = c + "     x = 1\n"
        f = probe(line)
        return (not f.is_regular) and str(f) == "!" + line[1:]

    out["commentChars"] = "".join(c for c in PROBE_CHARS if is_comment_char(c))
    if not out["commentChars"]:
        raise LookupError("fixed2free2.FortranLine: no comment character found by probing")

    # --- `len(line) <= 6`: a line of non-blank characters is not statement-carrying up to that length
    out["shortThreshold"] = _threshold(lambda n: not probe("x" * n).is_regular, 0, 40, "isShort")
    # --- blank-only lines are short whatever their length (variant blankShort)
    blank = [not probe(" " * n + "\n").is_regular for n in (7, 10, 40, 72, 73, 80, 200)]
    if len(set(blank)) != 1:
        raise LookupError("fixed2free2.FortranLine: blank-only lines are neither always nor never comment lines")
    out["blankShort"] = blank[0]
    # --- `!` as first non-blank character in column 7+ (variant col7Comment)
    bang7 = [not probe(" " * k + "! note\n").is_regular for k in (6, 7, 8, 20, 60)]
    if len(set(bang7)) != 1:
        raise LookupError("fixed2free2.FortranLine: `!` comment lines from column 7 on are not treated uniformly")
    out["col7Comment"] = bang7[0]
    if probe(" " * 5 + "! note\n").is_regular is not True or probe(" " * 5 + "! note\n").isContinuation is not True:
        raise LookupError("fixed2free2.FortranLine: `!` in column 6 is not a continuation mark")

    # --- `len(line) > 73 and length_limit`: from which length on a statement line has an overflow text
    def stmt(n):
        return "      " + "x" * (n - 7) + "\n"

    out["longThreshold"] = _threshold(lambda n: not probe(stmt(n)).excess_line, 8, 200, "isLong")
    if any(probe(stmt(n), False).excess_line for n in (60, 73, 74, 75, 100, 200)):
        raise LookupError("fixed2free2.FortranLine: a line is cut although the length limit is off")

    # --- `excess_line = <literal> + line[<colLimit>:]`
    tail = "".join(chr(ord("A") + i % 26) + chr(ord("a") + (i // 26) % 26) for i in range(40))
    lits, cols = set(), set()
    for n in (out["longThreshold"] + 1, out["longThreshold"] + 9, 130):
        line = ("      y = " + tail)[: n - 1].ljust(n - 1, "z") + "\n"
        ex = probe(line).excess_line
        k = next((k for k in range(len(line)) if ex.endswith(line[k:])), None)
        if k is None or len(line) - k < 1:
            raise LookupError("fixed2free2.FortranLine: overflow text is not `<literal> + line[k:]`")
        lits.add(ex[: len(ex) - len(line[k:])])
        cols.add(k)
    if len(lits) != 1 or len(cols) != 1:
        raise LookupError(f"fixed2free2.FortranLine: overflow text has no fixed literal / column ({lits}, {cols})")
    out["excessLiteral"] = lits.pop()
    out["colLimit"] = cols.pop()
    if out["excessLiteral"] not in ("!", "! "):
        raise LookupError(f"fixed2free2.FortranLine.__analyse: overflow mark {out['excessLiteral']!r} is neither '!' nor '! '")

    # --- the column to which `__convert` and `continueLine` pad before the overflow text
    pads = set()
    for body in ("y = 1", "y = 1 +", "12345678901234567890"):
        line = ("      " + body).ljust(out["colLimit"]) + "SEQ00010\n"
        f = probe(line)
        if not f.excess_line or not str(f).endswith(f.excess_line):
            raise LookupError("fixed2free2.FortranLine.__convert: overflow text is not appended to the converted line")
        pads.add(len(str(f)) - len(f.excess_line))
        f.continueLine()
        if not str(f).endswith(f.excess_line):
            raise LookupError("fixed2free2.FortranLine.continueLine: overflow text is not appended to the continued line")
        pads.add(len(str(f)) - len(f.excess_line))
    out["padColumns"] = sorted(pads)

    # --- the OpenMP sentinel: candidates are the string constants of the module, the test is the real code
    src = Path(mod.__file__).read_text()
    cands = sorted({n.value.lower() for n in ast.walk(ast.parse(src))
                    if isinstance(n, ast.Constant) and isinstance(n.value, str) and len(n.value) == 4})

    def is_sentinel(s4):
        return all(probe(c + t + " parallel do\n").is_regular for c in out["commentChars"] for t in (s4, s4.upper()))

    sent = [s for s in cands if is_sentinel(s)]
    if len(sent) != 1:
        raise LookupError(f"fixed2free2.FortranLine: OpenMP sentinel not identified (candidates {cands}, accepted {sent})")
    out["ompSentinel"] = sent[0]
    s = out["ompSentinel"]
    for near in (s[:3] + " ", s[:3] + "q", " " + s[:3], s[1:] + " ", s[0] + "   ", "    ", s[0] * 4):
        if near.lower() != s and is_sentinel(near):
            raise LookupError(f"fixed2free2.FortranLine: columns 2-5 = {near!r} are taken for the sentinel {s!r} too")

    # --- column 6: which non-blank characters do *not* make a continuation line
    nots = "".join(c for c in PROBE_CHARS if not c.isspace() and not probe("     " + c + "x = 1\n").isContinuation)
    out["notContChar"] = nots
    for c in " \t":
        if probe("     " + c + "x = 1\n").isContinuation:
            raise LookupError("fixed2free2.FortranLine: a blank in column 6 makes a continuation line")

    need = {"commentChars": str, "shortThreshold": int, "longThreshold": int, "ompSentinel": str,
            "notContChar": str, "colLimit": int, "blankShort": bool, "col7Comment": bool, "excessLiteral": str}
    for k, t in need.items():
        if k not in out or not isinstance(out[k], t):
            raise LookupError(f"fixed2free2.FortranLine: table {k} not derived")
    return out


def extract_settings() -> dict:
    """The extension lists of a default project *as `Project` sees them*: `ProjectSettings()` is
    constructed (so that `__post_init__` has run: `extensions` then also holds the preprocessed
    extensions) and the lists are read from the object."""
    common.import_ford()
    from ford.settings import ProjectSettings

    st = ProjectSettings()
    out = {}
    for k in ("extensions", "fixed_extensions", "fpp_extensions"):
        v = getattr(st, k, None)
        if not isinstance(v, list) or not all(isinstance(x, str) for x in v):
            raise LookupError(f"ford.settings.ProjectSettings().{k} is not a list of strings")
        out[k] = sorted(v)
    if not out["fixed_extensions"]:
        raise LookupError("ford.settings.ProjectSettings().fixed_extensions is empty")
    return out



# --------------------------------------------------------------------------
# round 6: with which arguments the real readers are constructed
# --------------------------------------------------------------------------
import contextlib
import inspect
import itertools
import tempfile


@contextlib.contextmanager
def spy_readers(rec: list):
    """Record (file name, fixed, length_limit, preprocessor given) of every `FortranReader` that is
    constructed - by `FortranSourceFile.__init__` and by `FortranReader.include` - while the block
    runs.  The spy is a subclass that only looks at its constructor arguments."""
    common.import_ford()
    import ford.reader as fr
    import ford.sourceform as sf

    orig = fr.FortranReader
    sig = inspect.signature(orig.__init__)
    for name in ("filename", "fixed", "length_limit", "preprocessor"):
        if name not in sig.parameters:
            raise LookupError(f"ford.reader.FortranReader.__init__ has no parameter {name!r}")

    class SpyReader(orig):   # type: ignore[misc, valid-type]
        def __init__(self, *a, **kw):
            b = sig.bind(self, *a, **kw)
            b.apply_defaults()
            rec.append((Path(str(b.arguments["filename"])).name, bool(b.arguments["fixed"]),
                        bool(b.arguments["length_limit"]), bool(b.arguments["preprocessor"])))
            super().__init__(*a, **kw)

    SpyReader.__name__ = orig.__name__
    SpyReader.__qualname__ = orig.__qualname__
    had_sf = getattr(sf, "FortranReader", None)
    fr.FortranReader = SpyReader
    sf.FortranReader = SpyReader
    try:
        yield
    finally:
        fr.FortranReader = orig
        if had_sf is not None:
            sf.FortranReader = had_sf


CFG_MAIN = ["      subroutine cfgprobe", "      integer :: mainv".ljust(72) + ",mainoff",
            "      include 'cfgprobe.inc'", "      end subroutine cfgprobe"]
CFG_INC = ["      integer :: incv".ljust(72) + ",incoff"]


def probe_reader_config() -> list:
    """[((fixed, limit setting, preprocessor given), main reader cfg, nested reader cfg)] for the 8
    combinations: the real `FortranSourceFile` is constructed on a file that INCLUDEs another one
    and the arguments of the two real `FortranReader`s are recorded."""
    common.import_ford()
    import ford.sourceform as sf
    from ford.settings import ProjectSettings

    rows = []
    with tempfile.TemporaryDirectory(prefix="ford-verif-c14cfg-") as d:
        d = Path(d)
        (d / "cfgprobe.inc").write_text("".join(l + "\n" for l in CFG_INC))
        for fixed, lim, pp in itertools.product((False, True), repeat=3):
            main = d / ("main.F" if fixed else "main.F90")
            main.write_text("".join(l + "\n" for l in CFG_MAIN))
            st = ProjectSettings(fixed_length_limit=lim)
            rec: list = []
            sf.namelist = sf.NameSelector()
            with spy_readers(rec), common.quiet():
                sf.FortranSourceFile(str(main), st, st.preprocessor.split() if pp else None, fixed, incl_src=False)
            mains = [r for r in rec if r[0] == main.name]
            incs = [r for r in rec if r[0] == "cfgprobe.inc"]
            if len(mains) != 1 or len(incs) != 1 or len(rec) != 2:
                raise LookupError(f"FortranSourceFile on a file with one include constructed the readers {rec!r}")
            rows.append(((fixed, lim, pp), mains[0][1:], incs[0][1:]))
    return rows


def _lean_b3(t) -> str:
    return "(" + ", ".join("true" if x else "false" for x in t) + ")"


def translate():
    t = extract(common.REPO)
    st = extract_settings()
    t["settings"] = st
    cfg = probe_reader_config()
    t["readerCfgProbe"] = cfg
    lines = [
        "/- GENERATED by translate/c14.py from ford/fixed2free2.py (by probing the real FortranLine) - do not edit -/",
        "import FordModel.Basic.Chars",
        "namespace Ford.Fixed.Gen",
        "open Ford",
        f"/-- the characters that make a comment line in column 1: {t['commentChars']!r} (code-point order) -/",
        f"def commentChars : Str := {_lean_str(t['commentChars'])}",
        f"def shortThreshold : Nat := {t['shortThreshold']}",
        f"def longThreshold : Nat := {t['longThreshold']}",
        f"def colLimit : Nat := {t['colLimit']}",
        f"def padColumns : List Nat := {t['padColumns']}",
        f"def ompSentinel : Str := {_lean_str(t['ompSentinel'])}",
        f"def notContChar : Str := {_lean_str(t['notContChar'])}",
        "/-- the variant of the code (see `Ford.Fixed.Variant`) -/",
        f"def blankShort : Bool := {'true' if t['blankShort'] else 'false'}",
        f"def col7Comment : Bool := {'true' if t['col7Comment'] else 'false'}",
        f"/-- `excess_line = {t['excessLiteral']!r} + line[{t['colLimit']}:]` -/",
        f"def excessLiteral : Str := {_lean_str(t['excessLiteral'])}",
        "/-- `ProjectSettings()` after `__post_init__` (sorted): "
        f"extensions {st['extensions']!r}, fixed_extensions {st['fixed_extensions']!r}, "
        f"fpp_extensions {st['fpp_extensions']!r} -/",
        f"def extensions : List Str := {_lean_strs(st['extensions'])}",
        f"def fixedExtensions : List Str := {_lean_strs(st['fixed_extensions'])}",
        f"def fppExtensions : List Str := {_lean_strs(st['fpp_extensions'])}",
        "/-- (fixed, `fixed_length_limit`, preprocessor given) of a `FortranSourceFile` -> the (fixed, length_limit, "
        "preprocessor) its `FortranReader` was constructed with -> those of the nested reader of an INCLUDEd file; "
        "recorded on the real code -/",
        "def readerCfgProbe : List ((Bool × Bool × Bool) × (Bool × Bool × Bool) × (Bool × Bool × Bool)) := ["
        + ", ".join(f"({_lean_b3(a)}, {_lean_b3(b)}, {_lean_b3(c)})" for a, b, c in cfg) + "]",
        "end Ford.Fixed.Gen",
        "",
    ]
    common.write_if_changed(common.LEAN / "FordModel" / "Generated" / "C14.lean", "\n".join(lines))
    return t
