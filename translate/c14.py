"""Translator for C14: the literal tables of ford/fixed2free2.py (comment characters,
column constants, OpenMP sentinel) -> lean/FordModel/Generated/C14.lean.
Raises when a construct is not found (counts as 'tie broken')."""
from __future__ import annotations

import ast
from pathlib import Path

from harness import common


def _lean_str(s: str) -> str:
    return "[" + ", ".join("Char.ofNat %d" % ord(c) for c in s) + "]"


def extract(repo: Path) -> dict:
    src = (repo / "ford" / "fixed2free2.py").read_text()
    tree = ast.parse(src)
    cls = next(n for n in tree.body if isinstance(n, ast.ClassDef) and n.name == "FortranLine")
    fn = {f.name: f for f in cls.body if isinstance(f, ast.FunctionDef)}
    ana = fn["_FortranLine__analyse"] if "_FortranLine__analyse" in fn else fn["__analyse"]
    out = {}
    for node in ast.walk(ana):
        if isinstance(node, ast.Assign) and len(node.targets) == 1 and isinstance(node.targets[0], ast.Attribute):
            name = node.targets[0].attr
            v = node.value
            if name == "isComment" and isinstance(v, ast.Compare) and isinstance(v.ops[0], ast.In):
                out["commentChars"] = v.comparators[0].value
            if name == "isShort":
                # `len(line) <= 6`            (as the code is)
                # `len(line) <= 6 or not line.strip()`   (blank-only lines are short: variant blankShort)
                cmp = v
                out["blankShort"] = False
                if isinstance(v, ast.BoolOp) and isinstance(v.op, ast.Or) and len(v.values) == 2:
                    cmp, other = v.values
                    if (isinstance(other, ast.UnaryOp) and isinstance(other.op, ast.Not)
                            and isinstance(other.operand, ast.Call)
                            and isinstance(other.operand.func, ast.Attribute)
                            and other.operand.func.attr == "strip" and not other.operand.args):
                        out["blankShort"] = True
                    else:
                        raise LookupError("fixed2free2.FortranLine.__analyse: isShort has an unknown second disjunct")
                if isinstance(cmp, ast.Compare) and isinstance(cmp.ops[0], ast.LtE):
                    out["shortThreshold"] = cmp.comparators[0].value
            if name == "isNewComment":
                # `"!" in fivechars and not self.isComment`, optionally (variant col7Comment)
                # `("!" in fivechars or (not line[:6].strip() and line[6:].lstrip()[:1] == "!")) and not ...`
                has_in = any(isinstance(c, ast.Compare) and isinstance(c.ops[0], ast.In)
                             and isinstance(c.left, ast.Constant) and c.left.value == "!"
                             and isinstance(c.comparators[0], ast.Name) for c in ast.walk(v))
                calls = sorted(c.func.attr for c in ast.walk(v)
                               if isinstance(c, ast.Call) and isinstance(c.func, ast.Attribute))
                slices = {(getattr(c.lower, "value", None), getattr(c.upper, "value", None))
                          for c in ast.walk(v) if isinstance(c, ast.Slice)}
                if has_in and not calls and not slices:
                    out["col7Comment"] = False
                elif has_in and calls == ["lstrip", "strip"] and slices == {(None, 6), (6, None), (None, 1)}:
                    out["col7Comment"] = True
                # anything else: not found -> LookupError below
            if name == "isLong":
                for c in ast.walk(v):
                    if isinstance(c, ast.Compare) and isinstance(c.ops[0], ast.Gt):
                        out["longThreshold"] = c.comparators[0].value
            if name == "isOMP":
                for c in ast.walk(v):
                    if isinstance(c, ast.Compare) and isinstance(c.ops[0], ast.Eq):
                        out["ompSentinel"] = c.comparators[0].value
            if name == "isContinuation":
                for c in ast.walk(v):
                    if isinstance(c, ast.Compare) and isinstance(c.ops[0], ast.Eq) and isinstance(c.comparators[0], ast.Constant):
                        out["notContChar"] = c.comparators[0].value
            if name == "excess_line" and isinstance(v, ast.BinOp):
                for c in ast.walk(v):
                    if isinstance(c, ast.Slice) and isinstance(c.lower, ast.Constant):
                        out["colLimit"] = c.lower.value
                if isinstance(v.op, ast.Add) and isinstance(v.left, ast.Constant) and isinstance(v.left.value, str):
                    out["excessLiteral"] = v.left.value
    need = {"commentChars": str, "shortThreshold": int, "longThreshold": int, "ompSentinel": str,
            "notContChar": str, "colLimit": int, "blankShort": bool, "col7Comment": bool, "excessLiteral": str}
    for k, t in need.items():
        if k not in out or not isinstance(out[k], t):
            raise LookupError(f"fixed2free2.FortranLine.__analyse: construct for {k} not found")
    if out["excessLiteral"] not in ("!", "! "):
        raise LookupError(f"fixed2free2.FortranLine.__analyse: overflow mark {out['excessLiteral']!r} is neither '!' nor '! '")
    # continueLine / __convert use the same column limit
    lims = set()
    for name in ("continueLine", "_FortranLine__convert", "__convert"):
        if name in fn:
            for c in ast.walk(fn[name]):
                if isinstance(c, ast.Call) and isinstance(c.func, ast.Attribute) and c.func.attr == "ljust":
                    lims.add(c.args[0].value)
                if isinstance(c, ast.Slice) and isinstance(c.upper, ast.Constant) and c.upper.value > 6:
                    lims.add(c.upper.value)
    if not lims:
        raise LookupError("ljust/slice column constants not found in continueLine/__convert")
    out["padColumns"] = sorted(lims)
    return out


def translate():
    t = extract(common.REPO)
    lines = [
        "/- GENERATED by translate/c14.py from ford/fixed2free2.py - do not edit -/",
        "import FordModel.Basic.Chars",
        "namespace Ford.Fixed.Gen",
        "open Ford",
        f"/-- `firstchar in {t['commentChars']!r}` -/",
        f"def commentChars : Str := {_lean_str(t['commentChars'])}",
        f"def shortThreshold : Nat := {t['shortThreshold']}",
        f"def longThreshold : Nat := {t['longThreshold']}",
        f"def colLimit : Nat := {t['colLimit']}",
        f"def padColumns : List Nat := {t['padColumns']}",
        f"def ompSentinel : Str := {_lean_str(t['ompSentinel'])}",
        f"def notContChar : Str := {_lean_str(t['notContChar'])}",
        "/-- the variant of the code, read from the shape of the assignments (see `Ford.Fixed.Variant`) -/",
        f"def blankShort : Bool := {'true' if t['blankShort'] else 'false'}",
        f"def col7Comment : Bool := {'true' if t['col7Comment'] else 'false'}",
        f"/-- `excess_line = {t['excessLiteral']!r} + line[72:]` -/",
        f"def excessLiteral : Str := {_lean_str(t['excessLiteral'])}",
        "end Ford.Fixed.Gen",
        "",
    ]
    common.write_if_changed(common.LEAN / "FordModel" / "Generated" / "C14.lean", "\n".join(lines))
    return t
