"""Translator for C18: the table of template output expressions (G11 `escapeSites`).

Walks the Jinja2 AST of every template in <repo>/ford/templates (Jinja's own parser, the
same Environment options as ford/output.py) and writes lean/FordModel/Generated/C18.lean:
one `Site` per `{{ expr | filters }}` whose expression reads an attribute of an object
(`a.b`, `a.b.c`, `a.b[0]`): template, enclosing macro/block, line, expression, filter chain.
Also extracts from ford/output.py whether the environment is created with autoescape.
"""
from __future__ import annotations

import ast
import re
from pathlib import Path

from harness import common


def _expr(node, filters):
    """canonical text of an expression; collects the filter chain (outermost last)"""
    import jinja2.nodes as N

    if isinstance(node, N.Filter):
        inner = _expr(node.node, filters) if node.node is not None else "?"
        filters.append(node.name)
        return inner
    if isinstance(node, N.Getattr):
        return _expr(node.node, []) + "." + node.attr
    if isinstance(node, N.Getitem):
        arg = node.arg
        a = repr(arg.value) if isinstance(arg, N.Const) else "?"
        return _expr(node.node, []) + "[" + a + "]"
    if isinstance(node, N.Name):
        return node.name
    if isinstance(node, N.Const):
        return repr(node.value)
    if isinstance(node, N.Call):
        return _expr(node.node, []) + "()"
    return "<" + type(node).__name__ + ">"


def extract_sites(repo: Path):
    import jinja2
    import jinja2.nodes as N

    tdir = repo / "ford" / "templates"
    env = jinja2.Environment(trim_blocks=True, lstrip_blocks=True)
    sites = []
    files = sorted(tdir.glob("*.html"))
    if not files:
        raise RuntimeError(f"no templates under {tdir}")
    for f in files:
        tree = env.parse(f.read_text())

        def walk(node, scope):
            if isinstance(node, N.Macro):
                scope = node.name
            elif isinstance(node, N.Block):
                scope = "block:" + node.name
            if isinstance(node, N.Output):
                for child in node.nodes:
                    if isinstance(child, N.TemplateData):
                        continue
                    filters: list[str] = []
                    e = _expr(child, filters)
                    if "." in e and not e.startswith("<") and not e.endswith("()"):
                        sites.append((f.name, scope, child.lineno, e, filters))
                    # expressions nested in calls / conditionals are not output sites of their own
                return
            for ch in node.iter_child_nodes():
                walk(ch, scope)

        walk(tree, "top")
    if not any(s[1] == "variable_list" and s[3] == "var.initial" for s in sites):
        raise RuntimeError("variable_list / var.initial output expression not found in macros.html")
    if not any(s[1] == "proc_line" for s in sites):
        raise RuntimeError("proc_line macro not found in macros.html")
    return sites


def extract_autoescape(repo: Path) -> bool:
    """`env = jinja2.Environment(...)` in ford/output.py: is autoescape switched on?"""
    tree = ast.parse((repo / "ford" / "output.py").read_text())
    for node in ast.walk(tree):
        if isinstance(node, ast.Assign) and any(isinstance(t, ast.Name) and t.id == "env" for t in node.targets):
            call = node.value
            if isinstance(call, ast.Call) and ast.unparse(call.func).endswith("Environment"):
                for kw in call.keywords:
                    if kw.arg == "autoescape":
                        if isinstance(kw.value, ast.Constant):
                            return bool(kw.value.value)
                        return True  # select_autoescape(...) or similar
                return False
    raise RuntimeError("jinja2.Environment(...) assignment to `env` not found in ford/output.py")


def _class_defs(tree):
    return {n.name: n for n in tree.body if isinstance(n, ast.ClassDef)}


def _method(cls, name):
    for n in cls.body:
        if isinstance(n, ast.FunctionDef) and n.name == name:
            return n
    return None


def extract_cleanup_steps(repo: Path):
    """The order of the steps of `_cleanup` of a procedure (ford/sourceform.py) that decide what a
    displayed dummy argument / function result / variable carries: `process_attribs()` (attributes
    of separate attribute statements are attached to `self.variables`), the removal of `external`
    variables, the argument loop and the result match (both move a variable out of
    `self.variables`).  `super()._cleanup()` is expanded in place.  Returns
    {"unit": [...], "proc": [...], "func": [...]} with step names of `Ford.AttrStmt.CleanStep`."""
    tree = ast.parse((repo / "ford" / "sourceform.py").read_text())
    classes = _class_defs(tree)

    def base_of(cname):
        bases = [ast.unparse(b) for b in classes[cname].bases]
        if len(bases) != 1 or bases[0] not in classes:
            raise RuntimeError(f"sourceform.py: class {cname} has unexpected bases {bases}")
        return bases[0]

    def steps_of(cname, depth=0):
        if depth > 6:
            raise RuntimeError("sourceform.py: _cleanup inheritance chain too deep")
        if cname not in classes:
            raise RuntimeError(f"sourceform.py: class {cname} not found")
        fn = _method(classes[cname], "_cleanup")
        if fn is None:
            return steps_of(base_of(cname), depth + 1)
        out = []
        for st in fn.body:
            text = ast.unparse(st)
            if isinstance(st, ast.Expr) and isinstance(st.value, ast.Constant):
                continue
            if text == "self.process_attribs()":
                out.append("attribs")
            elif text == "super()._cleanup()":
                out += steps_of(base_of(cname), depth + 1)
            elif isinstance(st, ast.For) and "enumerate(self.args)" in ast.unparse(st.iter):
                if "self.variables.remove(var)" not in text or "self.args[i] = arg" not in text:
                    raise RuntimeError(f"{cname}._cleanup: the argument loop has an unexpected body")
                out.append("matchArgs")
            elif isinstance(st, ast.If) and ast.unparse(st.test) == "not isinstance(self.retvar, FortranVariable)":
                if "self.variables.remove(var)" not in text or "self.retvar = var" not in text:
                    raise RuntimeError(f"{cname}._cleanup: the result match has an unexpected body")
                out.append("matchResult")
            elif isinstance(st, ast.Assign) and ast.unparse(st.targets[0]) == "self.variables":
                forms = {"[v for v in self.variables if 'external' not in v.attribs]": False,
                         # since fix 04d703a the keyword is compared in lower case
                         "[v for v in self.variables if 'external' not in [attr.lower() for attr in v.attribs]]": True}
                if ast.unparse(st.value) in forms:
                    EXTERNAL_CI.append(forms[ast.unparse(st.value)])
                if ast.unparse(st.value) not in forms:
                    raise RuntimeError(f"{cname}._cleanup: unexpected assignment to self.variables: {text[:90]!r}")
                out.append("dropExternal")
            elif isinstance(st, ast.Assign) and ast.unparse(st.targets[0]).startswith("self.all_procs"):
                continue
            elif isinstance(st, (ast.For, ast.If, ast.Assign)) and "self.variables" not in text \
                    and "self.args" not in text and "retvar" not in text and "attr_dict" not in text \
                    and "attribs" not in text and "process_attribs" not in text and "_cleanup" not in text:
                # a step that touches neither the variables, the arguments, the result nor the recorded
                # attribute statements (e.g. the procedure table, a constructor's accessibility) is not a
                # step of the attribute attachment
                continue
            else:
                raise RuntimeError(f"{cname}._cleanup: unrecognised statement {text[:90]!r}")
        return out

    for sub in ("FortranSubroutine",):
        if _method(classes.get(sub, ast.ClassDef(name=sub, body=[])), "_cleanup") is not None:
            raise RuntimeError(f"sourceform.py: {sub} now has its own _cleanup (not translated)")
    res = {"unit": steps_of("FortranCodeUnit"), "proc": steps_of("FortranSubroutine"), "func": steps_of("FortranFunction")}
    for k, need in (("unit", {"attribs"}), ("proc", {"attribs", "matchArgs"}), ("func", {"attribs", "matchArgs", "matchResult"})):
        if not need <= set(res[k]):
            raise RuntimeError(f"sourceform.py: _cleanup of {k}: steps {res[k]} lack {sorted(need - set(res[k]))}")
    return res


def extract_proc_prefixes(repo: Path):
    """`_list_of_procedure_attributes` (ford/sourceform.py): the table of prefix keywords of a procedure
    statement *in the order in which the loop tries them*, and how a keyword is recognised:
      byword=False  `if attribute in attribute_string` (substring test) + `re.sub(attribute, "", ...)`
      byword=True   the prefix is split by `paren_split(" ", ...)` and `attribute in words` is list membership
                    (fixes/C18-prefix-keyword-inside-type-spec.diff)
    Anything else raises (tie broken).  Returns (keywords, byword)."""
    tree = ast.parse((repo / "ford" / "sourceform.py").read_text())
    fn = next((n for n in tree.body if isinstance(n, ast.FunctionDef) and n.name == "_list_of_procedure_attributes"), None)
    if fn is None:
        raise RuntimeError("sourceform.py: _list_of_procedure_attributes not found")
    if len(fn.args.args) != 1:
        raise RuntimeError("sourceform.py: _list_of_procedure_attributes: unexpected signature")
    param = fn.args.args[0].arg
    consts = {}
    for n in tree.body:  # module-level tables: NAME = ("a", "b", ...)
        tgt = val = None
        if isinstance(n, ast.Assign) and len(n.targets) == 1 and isinstance(n.targets[0], ast.Name):
            tgt, val = n.targets[0].id, n.value
        elif isinstance(n, ast.AnnAssign) and isinstance(n.target, ast.Name) and n.value is not None:
            tgt, val = n.target.id, n.value
        if tgt and isinstance(val, (ast.List, ast.Tuple)) and val.elts and \
                all(isinstance(e, ast.Constant) and isinstance(e.value, str) for e in val.elts):
            consts[tgt] = [e.value for e in val.elts]
    body = [st for st in fn.body if not (isinstance(st, ast.Expr) and isinstance(st.value, ast.Constant))]
    texts = [ast.unparse(st) for st in body]
    loops = [st for st in body if isinstance(st, ast.For)]
    if len(loops) != 1 or not isinstance(loops[0].target, ast.Name):
        raise RuntimeError("_list_of_procedure_attributes: expected exactly one `for <name> in <table>` loop")
    loop = loops[0]
    var = loop.target.id
    it = loop.iter
    if isinstance(it, (ast.List, ast.Tuple)) and all(isinstance(e, ast.Constant) and isinstance(e.value, str) for e in it.elts):
        table = [e.value for e in it.elts]
    elif isinstance(it, ast.Name) and it.id in consts:
        table = consts[it.id]
    else:
        raise RuntimeError(f"_list_of_procedure_attributes: cannot read the keyword table from {ast.unparse(it)[:80]!r}")
    import re as _re
    for k in table:
        if not _re.fullmatch(r"[a-z_]+", k):
            raise RuntimeError(f"_list_of_procedure_attributes: keyword {k!r} is not a lower-case word (the model reads "
                               "`re.sub(keyword, ...)` as a literal pattern on a lower-cased string)")
    if len(loop.body) != 1 or not isinstance(loop.body[0], ast.If) or loop.body[0].orelse or loop.orelse:
        raise RuntimeError("_list_of_procedure_attributes: the loop body is not a single `if`")
    cond = loop.body[0]
    t = cond.test
    if not (isinstance(t, ast.Compare) and isinstance(t.left, ast.Name) and t.left.id == var and len(t.ops) == 1
            and isinstance(t.ops[0], ast.In) and isinstance(t.comparators[0], ast.Name)):
        raise RuntimeError(f"_list_of_procedure_attributes: unexpected test {ast.unparse(t)[:80]!r}")
    hay = t.comparators[0].id
    inner = [ast.unparse(x) for x in cond.body]
    if len(inner) != 2 or inner[0] != f"attribute_list.append({var})":
        raise RuntimeError(f"_list_of_procedure_attributes: unexpected body of the `if`: {inner!r}")
    head = [f"if not {param}:\n    return ([], '')", "attribute_list = []"]
    sub_forms = (
        head + [f"{param} = {param}.lower()"],
        f"{hay} = re.sub({var}, '', {hay}, flags=re.IGNORECASE)",
        f"return (attribute_list, {hay}.replace(' ', ''))",
    )
    word_forms = (
        head + [f"{hay} = ford.utils.paren_split(' ', {param}.lower().replace('\\t', ' '))"],
        None,
        f"return (attribute_list, ''.join({hay}).replace(' ', ''))",
    )
    pre, post = texts[:body.index(loop)], texts[body.index(loop) + 1:]
    if hay == param and pre == sub_forms[0] and inner[1] == sub_forms[1] and post == [sub_forms[2]]:
        return table, False
    m = _re.fullmatch(rf"{hay} = \[(\w+) for \1 in {hay} if \1 != {var}\]", inner[1])
    if hay != param and pre == word_forms[0] and m and post == [word_forms[2]]:
        return table, True
    raise RuntimeError("_list_of_procedure_attributes: neither the substring form nor the word form: "
                       f"before the loop {pre!r}, in the `if` {inner!r}, after {post!r}")


def extract_shape_branch(repo: Path):
    """`process_attribs` (FortranCodeUnit and FortranBlockData): the branch that splits `allocatable(:)` /
    `pointer(..)` / `target(..)` recorded by an ALLOCATABLE / POINTER / TARGET statement into the attribute and the
    array spec.  Returns (keywords of the `or` chain in source order, keeps): keeps=False `var.dimension = attr[i:]`
    (what the declaration wrote behind the name is overwritten), keeps=True the repaired form
    (fixes/C18-shape-statement-keeps-length.diff).  Both copies of the loop must agree."""
    tree = ast.parse((repo / "ford" / "sourceform.py").read_text())
    classes = _class_defs(tree)
    found = []
    for cname in ("FortranCodeUnit", "FortranBlockData"):
        fn = _method(classes.get(cname, ast.ClassDef(name=cname, body=[])), "process_attribs")
        if fn is None:
            raise RuntimeError(f"sourceform.py: {cname}.process_attribs not found")
        hits = []
        for node in ast.walk(fn):
            if isinstance(node, ast.If) and isinstance(node.test, ast.BoolOp) and isinstance(node.test.op, ast.And) \
                    and ast.unparse(node.test.values[0]) == "DIM_RE.match(attr)":
                hits.append(node)
        if len(hits) != 1 or len(hits[0].test.values) != 2:
            raise RuntimeError(f"{cname}.process_attribs: the DIM_RE branch was not found once")
        node = hits[0]
        alt = node.test.values[1]
        if not (isinstance(alt, ast.BoolOp) and isinstance(alt.op, ast.Or)):
            raise RuntimeError(f"{cname}.process_attribs: unexpected DIM_RE condition {ast.unparse(node.test)[:90]!r}")
        kws = []
        for c in alt.values:
            if not (isinstance(c, ast.Compare) and isinstance(c.left, ast.Constant) and isinstance(c.left.value, str)
                    and len(c.ops) == 1 and isinstance(c.ops[0], ast.In) and ast.unparse(c.comparators[0]) == "attr"):
                raise RuntimeError(f"{cname}.process_attribs: unexpected DIM_RE condition {ast.unparse(node.test)[:90]!r}")
            kws.append(c.left.value)
        body = [ast.unparse(x) for x in node.body]
        head = ["i = attr.index('(')", "var.attribs.append(attr[0:i])"]
        if body == head + ["var.dimension = attr[i:]"]:
            keeps = False
        elif body == head + ["kept = '' if var.dimension.startswith('(') else var.dimension", "var.dimension = attr[i:] + kept"]:
            keeps = True
        else:
            raise RuntimeError(f"{cname}.process_attribs: unexpected body of the DIM_RE branch: {body!r}")
        found.append((kws, keeps))
    if found[0] != found[1]:
        raise RuntimeError(f"process_attribs: FortranCodeUnit and FortranBlockData disagree: {found!r}")
    return found[0]


SHAPE: dict = {}  # filled by translate(): {"keywords": [...], "keeps": bool}


def check_function_initialize(repo: Path):
    """`FortranFunction._initialize`: the left-over of the prefix goes to `parse_type` with only ValueError
    suppressed (what `ProcPrefix.resultTypeOf` models)"""
    tree = ast.parse((repo / "ford" / "sourceform.py").read_text())
    cls = _class_defs(tree).get("FortranFunction")
    fn = _method(cls, "_initialize") if cls else None
    text = ast.unparse(fn) if fn else ""
    for need in ("attribstr = self._procedure_initialize(**line.groupdict())", "with suppress(ValueError):",
                 "parse_type(attribstr, self.strings, self.settings.extra_vartypes)",
                 "self.retvar = line['result'] or self.name"):
        if need not in text:
            raise RuntimeError(f"FortranFunction._initialize: expected {need!r}")
    cls = _class_defs(tree).get("FortranProcedure")
    fn = _method(cls, "_procedure_initialize") if cls else None
    text = ast.unparse(fn) if fn else ""
    for need in ("self.attribs, attribstr = _list_of_procedure_attributes(attributes)",
                 "self.args = [arg for arg in self.SPLIT_RE.split(arguments[1:-1].strip()) if arg]"):
        if need not in text:
            raise RuntimeError(f"FortranProcedure._procedure_initialize: expected {need!r}")


def extract_decl_attr_rules(repo: Path):
    """`line_to_variables` (ford/sourceform.py): the if-chain that turns an attribute of a type declaration into a
    field of the variable (`permission`, `optional`, `parameter`, `intent`); everything else is kept in `attribs` as
    written.  Returns [(keyword, action)] in source order, action in {"permission", "optional", "parameter",
    ("intent", value)}.  An unrecognised shape raises (tie broken)."""
    tree = ast.parse((repo / "ford" / "sourceform.py").read_text())
    fn = next((n for n in tree.body if isinstance(n, ast.FunctionDef) and n.name == "line_to_variables"), None)
    if fn is None:
        raise RuntimeError("sourceform.py: line_to_variables not found")
    text = ast.unparse(fn)
    for need in ("parsed_type = parse_type(line, parent.strings, parent.settings.extra_vartypes)",
                 "if (attribmatch := ATTRIBSPLIT_RE.match(parsed_type.rest)):",
                 "attribstr = attribmatch.group(1).strip()", "declarestr = attribmatch.group(2).strip()",
                 "tmp_attribs = [attr.strip() for attr in ford.utils.paren_split(',', attribstr)]",
                 "declarestr = ATTRIBSPLIT2_RE.match(parsed_type.rest).group(2)",
                 "declarations = ford.utils.paren_split(',', declarestr)", "permission = inherit_permission"):
        if need not in text:
            raise RuntimeError(f"line_to_variables: expected {need!r}")
    loops = [n for n in ast.walk(fn) if isinstance(n, ast.For) and ast.unparse(n.iter) == "tmp_attribs"]
    if len(loops) != 1 or not isinstance(loops[0].target, ast.Name):
        raise RuntimeError("line_to_variables: the loop over tmp_attribs was not found")
    loop = loops[0]
    var = loop.target.id
    body = [st for st in loop.body if not (isinstance(st, ast.Expr) and isinstance(st.value, ast.Constant))]
    if len(body) != 2 or ast.unparse(body[0]) != f"{var}_lower = {var}.lower().replace(' ', '')" or not isinstance(body[1], ast.If):
        raise RuntimeError(f"line_to_variables: unexpected body of the attribute loop: {[ast.unparse(b)[:60] for b in body]}")
    key = f"{var}_lower"
    rules = []
    node = body[1]
    while True:
        t = node.test
        if not (isinstance(t, ast.Compare) and isinstance(t.left, ast.Name) and t.left.id == key and len(t.ops) == 1):
            raise RuntimeError(f"line_to_variables: unexpected test {ast.unparse(t)[:80]!r}")
        cmp_ = t.comparators[0]
        if isinstance(t.ops[0], ast.In) and isinstance(cmp_, (ast.List, ast.Tuple)) and \
                all(isinstance(e, ast.Constant) and isinstance(e.value, str) for e in cmp_.elts):
            kws = [e.value for e in cmp_.elts]
        elif isinstance(t.ops[0], ast.Eq) and isinstance(cmp_, ast.Constant) and isinstance(cmp_.value, str):
            kws = [cmp_.value]
        else:
            raise RuntimeError(f"line_to_variables: unexpected test {ast.unparse(t)[:80]!r}")
        act = [ast.unparse(x) for x in node.body]
        if act == [f"permission = {key}"]:
            action = "permission"
        elif act == ["optional = True"]:
            action = "optional"
        elif act == ["parameter = True"]:
            action = "parameter"
        elif len(act) == 1 and (m := re.fullmatch(r"intent = '(\w+)'", act[0])):
            action = ("intent", m.group(1))
        else:
            raise RuntimeError(f"line_to_variables: unexpected action {act!r} for {kws!r}")
        for k in kws:
            if k != k.lower().replace(" ", ""):
                raise RuntimeError(f"line_to_variables: keyword {k!r} can never equal a lower-cased, blank-free attribute")
            rules.append((k, action))
        if len(node.orelse) == 1 and isinstance(node.orelse[0], ast.If):
            node = node.orelse[0]
            continue
        if [ast.unparse(x) for x in node.orelse] != [f"attribs.append({var})"]:
            raise RuntimeError(f"line_to_variables: the final else is not `attribs.append({var})`: {[ast.unparse(x) for x in node.orelse]!r}")
        break
    return rules


def probe_decl_attr_rules():
    """The same table as `extract_decl_attr_rules`, obtained by RUNNING `line_to_variables` (through the real parser)
    on one declaration per keyword instead of reading the if-chain: used when the chain is written in a shape the
    AST reader does not know (a dictionary lookup, a helper function, ...).  The vocabulary is the one of the Fortran
    standard that FORD maps to a field; every other attribute must be kept in `attribs` as written.  The result is in
    the canonical order of the as-found chain; raises (tie broken) when the observed behaviour is not expressible as
    such a table."""
    common.import_ford()
    from ford.settings import ProjectSettings
    from ford.sourceform import FortranSourceFile

    canon = [("public", "permission"), ("private", "permission"), ("protected", "permission"), ("optional", "optional"),
             ("parameter", "parameter"), ("intent(in)", ("intent", "in")), ("intent(out)", ("intent", "out")),
             ("intent(inout)", ("intent", "inout"))]
    others = ["allocatable", "target", "save", "dimension(2)", "pointer", "volatile", "intent(in out)x", "publicx", "optionaly",
              "codimension[*]", "contiguous", "asynchronous", "value", "bind(c)"]
    spellings = lambda k: [k, k.upper(), k.replace("(", " ( ").replace(")", " )") if "(" in k else k.capitalize()]  # noqa
    lines, want = [], []
    for k, act in canon:
        for sp in spellings(k):
            lines.append(f"  integer, {sp} :: v{len(lines)}" + (" = 1" if k == "parameter" else ""))
            want.append((k, act, sp))
    for o in others:
        lines.append(f"  integer, {o} :: v{len(lines)}")
        want.append((o, "kept", o))
    with common.scratch_dir("ford-probe-") as d:
        f = d / "probe.f90"
        f.write_text("subroutine probe_s(" + ", ".join(f"v{i}" for i in range(len(lines))) + ")\n" + "\n".join(lines) + "\nend subroutine probe_s\n")
        with common.quiet():
            src = FortranSourceFile(str(f), ProjectSettings())
        sub = src.subroutines[0]
        got = {v.name: v for v in list(sub.variables) + [a for a in sub.args if not isinstance(a, str)]}
    rules = []
    for i, (k, act, sp) in enumerate(want):
        v = got.get(f"v{i}")
        if v is None:
            raise RuntimeError(f"probe of line_to_variables: `integer, {sp} :: v{i}` declared nothing")
        fields = dict(permission=v.permission, optional=bool(v.optional), parameter=bool(v.parameter), intent=v.intent or "",
                      attribs=list(v.attribs))
        base = dict(permission="public", optional=False, parameter=False, intent="", attribs=[])
        if act == "permission":
            base["permission"] = k
        elif act == "optional":
            base["optional"] = True
        elif act == "parameter":
            base["parameter"] = True
        elif act == "kept":
            base["attribs"] = [sp]
        else:
            base["intent"] = act[1]
        if fields != base:
            raise RuntimeError(f"probe of line_to_variables: attribute {sp!r} gives {fields}, the if-chain model says {base}")
        if act != "kept" and (k, act) not in rules:
            rules.append((k, act))
    return rules


DECL_RULES: list = []  # filled by translate()
DECL_RULES_HOW: list = []  # non-empty when the table was obtained by probing the code

PREFIX: dict = {}  # filled by translate(): {"table": [...], "byword": bool}

CLEANUP: dict = {}  # filled by translate(): the step orders last written


EXTERNAL_CI: list = []


SORT: dict = {}      # filled by translate(): {"collections": [...], "options": [...], "heading_args": "args"}
CHARSEL: list = []   # filled by translate(): [(need_len_none, need_kind_none, regex or None, target)]


def extract_sort_components(repo: Path):
    """`FortranBase.sort_components`: (the names of the collections that are sorted in place - the inline list the
    final `for` loop walks over, in source order -, the keys of SORT_KEY_FUNCTIONS in source order with whether the
    entry is `None`).  The loop body must be the two statements `entity = getattr(self, entities, [])` and
    `entity.sort(key=sort_key)`; anything else raises (tie broken)."""
    tree = ast.parse((repo / "ford" / "sourceform.py").read_text())
    fn = _method(_class_defs(tree).get("FortranBase", ast.ClassDef(name="FortranBase", body=[])), "sort_components")
    if fn is None:
        raise RuntimeError("sourceform.py: FortranBase.sort_components not found")
    loops = [n for n in fn.body if isinstance(n, ast.For)]
    if len(loops) != 1 or not isinstance(loops[0].iter, (ast.List, ast.Tuple)):
        raise RuntimeError("sort_components: the loop over an inline list of collection names was not found once")
    loop = loops[0]
    if not all(isinstance(e, ast.Constant) and isinstance(e.value, str) for e in loop.iter.elts):
        raise RuntimeError("sort_components: the list of collection names is not a list of string literals")
    var = ast.unparse(loop.target)
    body = [ast.unparse(x) for x in loop.body]
    if body != [f"entity = getattr(self, {var}, [])", "entity.sort(key=sort_key)"]:
        raise RuntimeError(f"sort_components: unexpected loop body {body!r}")
    # nothing else in the function may sort or reorder a list
    others = [ast.unparse(n)[:80] for n in ast.walk(fn) if isinstance(n, ast.Call) and isinstance(n.func, ast.Attribute)
              and n.func.attr in ("sort", "reverse") and ast.unparse(n) != "entity.sort(key=sort_key)"]
    others += [ast.unparse(n)[:80] for n in ast.walk(fn) if isinstance(n, ast.Call) and ast.unparse(n.func) in ("sorted", "reversed", "setattr")]
    if others:
        raise RuntimeError(f"sort_components: further reordering statements {others!r}")
    options = None
    for n in ast.walk(fn):
        if isinstance(n, ast.Assign) and ast.unparse(n.targets[0]) == "SORT_KEY_FUNCTIONS" and isinstance(n.value, ast.Dict):
            options = [(k.value, isinstance(v, ast.Constant) and v.value is None) for k, v in zip(n.value.keys, n.value.values)]
    if not options:
        raise RuntimeError("sort_components: SORT_KEY_FUNCTIONS not found")
    guard = [ast.unparse(n) for n in fn.body if isinstance(n, ast.If)]
    if guard != ["if sort_key is None:\n    return"]:
        raise RuntimeError(f"sort_components: unexpected early return {guard!r}")
    return [e.value for e in loop.iter.elts], options


def extract_heading_args(repo: Path) -> str:
    """macros.html, macro `proc_line`: the attribute of `proc` whose items, joined with ", ", stand between the
    parentheses of a procedure heading (`({{ proc.args | join(", ") }})`)"""
    import jinja2
    import jinja2.nodes as N

    env = jinja2.Environment(trim_blocks=True, lstrip_blocks=True)
    tree = env.parse((repo / "ford" / "templates" / "macros.html").read_text())
    hits = []
    for m in tree.find_all(N.Macro):
        if m.name != "proc_line":
            continue
        for f in m.find_all(N.Filter):
            if f.name == "join" and f.args and isinstance(f.args[0], N.Const) and f.args[0].value == ", ":
                if isinstance(f.node, N.Getattr) and isinstance(f.node.node, N.Name) and f.node.node.name == "proc":
                    hits.append(f.node.attr)
                else:
                    raise RuntimeError("proc_line: the argument list is not a plain attribute of `proc` joined with ', '")
    if len(hits) != 1:
        raise RuntimeError(f"proc_line: expected one `proc.<attr> | join(', ')`, found {hits!r}")
    return hits[0]


def extract_char_selector_chain(repo: Path):
    """`parse_type`: the loop `for arg in args:` that sorts the (at most two) parameters of a `character(...)` selector
    into `length` and `kind`.  Each branch is read as (length must still be None, kind must still be None, the regular
    expression that must match `arg` or None, the variable that is assigned); the branches are tried in source order
    and the first that fires ends the iteration (`continue`, an `elif` chain, or the end of the loop body)."""
    tree = ast.parse((repo / "ford" / "sourceform.py").read_text())
    fn = next((n for n in tree.body if isinstance(n, ast.FunctionDef) and n.name == "parse_type"), None)
    if fn is None:
        raise RuntimeError("sourceform.py: parse_type not found")
    loops = [n for n in ast.walk(fn) if isinstance(n, ast.For) and ast.unparse(n.target) == "arg" and ast.unparse(n.iter) == "args"]
    if len(loops) != 1:
        raise RuntimeError("parse_type: the loop `for arg in args` was not found once")

    def cond(test):
        need_len = need_kind = False
        regex = walrus = None
        for t in (test.values if isinstance(test, ast.BoolOp) and isinstance(test.op, ast.And) else [test]):
            u = ast.unparse(t)
            if u == "length is None":
                need_len = True
            elif u == "kind is None":
                need_kind = True
            elif isinstance(t, ast.NamedExpr) and re.fullmatch(r"\((\w+) := (LEN_RE|KIND_RE)\.match\(arg\)\)", u):
                if regex:
                    raise RuntimeError(f"parse_type: two regular expressions in one condition: {u}")
                regex = re.fullmatch(r"\((\w+) := (LEN_RE|KIND_RE)\.match\(arg\)\)", u).group(2)
                walrus = re.fullmatch(r"\((\w+) := (LEN_RE|KIND_RE)\.match\(arg\)\)", u).group(1)
            else:
                raise RuntimeError(f"parse_type: unexpected condition in the character parameter loop: {u[:90]!r}")
        return need_len, need_kind, regex, walrus

    def target(body, walrus=None):
        """(assigned variable, the raw argument is assigned): a branch whose regular expression matched must assign a
        value taken from that match (how - group numbers, group names - is left to the correspondence streams)"""
        a = body[0]
        if isinstance(a, ast.Assign) and ast.unparse(a.targets[0]) in ("length", "kind"):
            t = ast.unparse(a.targets[0])
            names = {n.id for n in ast.walk(a.value) if isinstance(n, ast.Name)}
            if ast.unparse(a.value) == "arg":
                return t, True
            if walrus and names == {walrus}:
                return t, False
            raise RuntimeError(f"parse_type: unexpected value assigned in the character parameter loop: {t} = {ast.unparse(a.value)[:60]}")
        raise RuntimeError(f"parse_type: unexpected branch body {ast.unparse(a)[:80]!r}")

    rules = []

    def chain(node, last):
        """an `if` statement (with its elif / else chain); last: it is the last statement of the loop body"""
        nl, nk, rx, wl = cond(node.test)
        t, plain = target(node.body, wl)
        if plain != (rx is None):
            raise RuntimeError("parse_type: a branch assigns the raw argument after a regular expression matched (or the reverse)")
        rules.append((nl, nk, rx, t))
        ends = isinstance(node.body[-1], ast.Continue)
        if node.orelse:
            if len(node.orelse) == 1 and isinstance(node.orelse[0], ast.If):
                chain(node.orelse[0], last)
            else:
                t2, plain2 = target(node.orelse)
                if not plain2:
                    raise RuntimeError("parse_type: unexpected else branch in the character parameter loop")
                rules.append((False, False, None, t2))
                if not last:
                    raise RuntimeError("parse_type: statements follow an if/else chain in the character parameter loop")
        elif not (ends or last):
            raise RuntimeError("parse_type: a branch of the character parameter loop neither continues nor ends the body")

    body = loops[0].body
    for i, st in enumerate(body):
        if not isinstance(st, ast.If):
            raise RuntimeError(f"parse_type: unexpected statement in the character parameter loop: {ast.unparse(st)[:80]!r}")
        chain(st, i == len(body) - 1)
    return rules


PROCLINE: dict = {}  # filled by translate(): {"joins": [...], "tests": [...], "data": [...], "result_ci": bool}

RESULT_TEST_CI = "(proc.proctype|lower eq 'function' and proc.name|lower ne proc.retvar.name|lower)"


def _test_str(node):
    """canonical text of a Jinja test expression"""
    import jinja2.nodes as N

    if isinstance(node, N.Name):
        return node.name
    if isinstance(node, N.Const):
        return repr(node.value)
    if isinstance(node, N.Getattr):
        return _test_str(node.node) + "." + node.attr
    if isinstance(node, N.Filter):
        if node.args or node.kwargs:
            raise RuntimeError("proc_line: filter with arguments in a test")
        return _test_str(node.node) + "|" + node.name
    if isinstance(node, N.Not):
        return "not " + _test_str(node.node)
    if isinstance(node, N.And):
        return "(" + _test_str(node.left) + " and " + _test_str(node.right) + ")"
    if isinstance(node, N.Or):
        return "(" + _test_str(node.left) + " or " + _test_str(node.right) + ")"
    if isinstance(node, N.Compare):
        return _test_str(node.expr) + "".join(" " + o.op + " " + _test_str(o.expr) for o in node.ops)
    raise RuntimeError("proc_line: unexpected node in a test: " + type(node).__name__)


def extract_proc_line(repo: Path):
    """macros.html, macro `proc_line`: (the `join` filters as (attribute of `proc`, separator), the tests of its `if`
    statements as canonical text, the literal text between its output expressions with None for an expression), all
    in source order"""
    import jinja2
    import jinja2.nodes as N

    env = jinja2.Environment(trim_blocks=True, lstrip_blocks=True)
    tree = env.parse((repo / "ford" / "templates" / "macros.html").read_text())
    ms = [m for m in tree.find_all(N.Macro) if m.name == "proc_line"]
    if len(ms) != 1:
        raise RuntimeError("macros.html: macro proc_line not found once")
    m = ms[0]
    joins = []
    for f in m.find_all(N.Filter):
        if f.name == "join":
            if not (isinstance(f.node, N.Getattr) and isinstance(f.node.node, N.Name) and f.node.node.name == "proc"
                    and len(f.args) == 1 and isinstance(f.args[0], N.Const) and isinstance(f.args[0].value, str)):
                raise RuntimeError("proc_line: unexpected join filter")
            joins.append((f.node.attr, f.args[0].value))
    tests = [_test_str(i.test) for i in m.find_all(N.If)]
    data = []

    def walk(node):
        if isinstance(node, N.Output):
            for ch in node.nodes:
                data.append(ch.data if isinstance(ch, N.TemplateData) else None)
            return
        for ch in node.iter_child_nodes():
            walk(ch)

    walk(m)
    return joins, tests, data


def lean_str(s: str) -> str:
    return '"' + s.replace("\\", "\\\\").replace('"', '\\"').replace("\n", "\\n") + '"'


def translate():
    repo = common.REPO
    sites = extract_sites(repo)
    auto = extract_autoescape(repo)
    EXTERNAL_CI.clear()
    steps = extract_cleanup_steps(repo)
    if not EXTERNAL_CI or any(x != EXTERNAL_CI[0] for x in EXTERNAL_CI):
        raise RuntimeError(f"sourceform.py: the `external` filter of _cleanup was not found in one form: {EXTERNAL_CI}")
    shape_kws, shape_keeps = extract_shape_branch(repo)
    SHAPE.clear()
    SHAPE.update(keywords=list(shape_kws), keeps=shape_keeps)
    common.write_if_changed(
        common.LEAN / "FordModel" / "Generated" / "C18Cfg.lean",
        "/- GENERATED by translate/c18.py from ford/sourceform.py - do not edit -/\n"
        "namespace Ford.Generated.C18Cfg\n\n"
        "/-- the `external` filter of `_cleanup` compares the attribute in lower case -/\n"
        f"def externalCI : Bool := {'true' if EXTERNAL_CI[0] else 'false'}\n\n"
        "/-- `process_attribs`: the keywords of the branch `DIM_RE.match(attr) and (\"pointer\" in attr or ...)`, in source order -/\n"
        "def shapeStmtKeywords : List (List Char) := ["
        + ", ".join("[" + ", ".join("'" + c + "'" for c in k) + "]" for k in shape_kws) + "]\n\n"
        "/-- ... and whether that branch keeps what the declaration wrote behind the name (`c*(80)`) -/\n"
        f"def shapeKeepsLength : Bool := {'true' if shape_keeps else 'false'}\n\n"
        "end Ford.Generated.C18Cfg\n")
    CLEANUP.clear()
    CLEANUP.update(steps)
    table, byword = extract_proc_prefixes(repo)
    check_function_initialize(repo)
    PREFIX.clear()
    PREFIX.update(table=list(table), byword=byword)
    try:
        rules = extract_decl_attr_rules(repo)
    except RuntimeError as e:
        # the if-chain is spelt in a way the AST reader does not know: ask the code what it does
        rules = probe_decl_attr_rules()
        DECL_RULES_HOW.append(f"probed (AST reader: {e})")
    DECL_RULES.clear()
    DECL_RULES.extend(rules)
    sort_colls, sort_opts = extract_sort_components(repo)
    head_args = extract_heading_args(repo)
    SORT.clear()
    SORT.update(collections=list(sort_colls), options=[k for k, _ in sort_opts], heading_args=head_args)
    pl_joins, pl_tests, pl_data = extract_proc_line(repo)
    PROCLINE.clear()
    PROCLINE.update(joins=[list(x) for x in pl_joins], tests=list(pl_tests), data=list(pl_data), result_ci=RESULT_TEST_CI in pl_tests)
    csel = extract_char_selector_chain(repo)
    CHARSEL.clear()
    CHARSEL.extend(csel)

    def action(a):
        return "." + a if isinstance(a, str) else f".{a[0]} " + chars(a[1])

    def chars(k):
        return "[" + ", ".join("'" + c + "'" for c in k) + "]"

    def step_list(k):
        return "[" + ", ".join("." + x for x in steps[k]) + "]"

    out = [
        "/- GENERATED by translate/c18.py from ford/templates/*.html, ford/output.py and ford/sourceform.py - do not edit -/",
        "import FordModel.Escape",
        "import FordModel.AttrStmt",
        "import FordModel.DeclLine",
        "import FordModel.SortComp",
        "import FordModel.CharSel",
        "namespace Ford.Generated.C18",
        "open Ford.Html",
        "",
        "/-- the steps of `_cleanup` (ford/sourceform.py) that touch `self.variables` / `self.args` / `self.retvar`,",
        "    in source order, `super()._cleanup()` expanded: FortranCodeUnit, FortranSubroutine, FortranFunction -/",
        f"def unitCleanupSteps : List Ford.AttrStmt.CleanStep := {step_list('unit')}",
        f"def procCleanupSteps : List Ford.AttrStmt.CleanStep := {step_list('proc')}",
        f"def funcCleanupSteps : List Ford.AttrStmt.CleanStep := {step_list('func')}",
        "",
        "/-- the prefix keywords of `_list_of_procedure_attributes` (ford/sourceform.py) in the order in which the loop",
        "    tries them, and how a keyword is recognised (false: substring test + re.sub; true: one of the words of the",
        "    prefix split at blanks outside parentheses) -/",
        "def procPrefixes : List (List Char) := [" + ", ".join(chars(k) for k in table) + "]",
        f"def prefixByWord : Bool := {'true' if byword else 'false'}",
        "",
        "/-- the if-chain of the attribute loop of `line_to_variables` (ford/sourceform.py) in source order: the attribute",
        "    (lower-cased, blanks removed) and the field it is turned into; every other attribute is kept as written -/",
        "def declAttrRules : Ford.DeclLine.Rules := [" + ", ".join(f"({chars(k)}, {action(a)})" for k, a in rules) + "]",
        "",
        "/-- `FortranBase.sort_components` (ford/sourceform.py): the collections that are sorted in place, in source order;",
        "    the keys of SORT_KEY_FUNCTIONS (with `true` for the entry that is `None`: nothing is sorted) -/",
        "def sortedCollections : List (List Char) := [" + ", ".join(chars(k) for k in sort_colls) + "]",
        "def sortOptions : List (List Char × Bool) := [" + ", ".join(f"({chars(k)}, {'true' if n else 'false'})" for k, n in sort_opts) + "]",
        "",
        "/-- macros.html, `proc_line`: the collection whose items stand between the parentheses of a procedure heading -/",
        "def headingArgsCollection : List Char := " + chars(head_args),
        "",
        "/-- `parse_type` (ford/sourceform.py): the branches of the loop over the parameters of a `character(...)` selector,",
        "    in source order: length must still be None, kind must still be None, regular expression, assigned variable -/",
        "def charSelRules : Ford.CharSel.Rules := [" + ", ".join(
            f"⟨{'true' if nl else 'false'}, {'true' if nk else 'false'}, .{ {None: 'none', 'LEN_RE': 'len', 'KIND_RE': 'kind'}[rx] }, .{t}⟩"
            for nl, nk, rx, t in csel) + "]",
        "",
        "/-- macros.html, `proc_line`: the `join` filters (attribute of `proc`, separator), the tests of the `if` statements and the",
        "    literal text between the output expressions (`none` = an output expression), all in source order; whether the test of",
        "    the RESULT clause compares the two names lower-cased -/",
        "def procLineJoins : List (String × String) := [" + ", ".join(f"({lean_str(a)}, {lean_str(b)})" for a, b in pl_joins) + "]",
        "def procLineTests : List String := [" + ", ".join(lean_str(x) for x in pl_tests) + "]",
        "def procLineData : List (Option String) := [" + ", ".join("none" if x is None else "some " + lean_str(x) for x in pl_data) + "]",
        f"def procLineResultCI : Bool := {'true' if RESULT_TEST_CI in pl_tests else 'false'}",
        "",
        f"def autoescape : Bool := {'true' if auto else 'false'}",
        "",
        "def escapeSites : List Site := [",
    ]
    rows = []
    for t, scope, line, e, filters in sites:
        fl = "[" + ", ".join(lean_str(x) for x in filters) + "]"
        rows.append(f"  ⟨{lean_str(t)}, {lean_str(scope)}, {line}, {lean_str(e)}, {lean_str(e.rsplit(".", 1)[1])}, {fl}⟩")
    out.append(",\n".join(rows))
    out += ["]", "", "end Ford.Generated.C18", ""]
    common.write_if_changed(common.LEAN / "FordModel" / "Generated" / "C18.lean", "\n".join(out))
    return sites, auto


if __name__ == "__main__":
    s, a = translate()
    print(len(s), "sites; autoescape =", a, "; cleanup steps", CLEANUP)
