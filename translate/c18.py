"""Translator for C18: the table of template output expressions (G11 `escapeSites`).

Walks the Jinja2 AST of every template in <repo>/ford/templates (Jinja's own parser, the
same Environment options as ford/output.py) and writes lean/FordModel/Generated/C18.lean:
one `Site` per `{{ expr | filters }}` whose expression reads an attribute of an object
(`a.b`, `a.b.c`, `a.b[0]`): template, enclosing macro/block, line, expression, filter chain.
Also extracts from ford/output.py whether the environment is created with autoescape.
"""
from __future__ import annotations

import ast
from pathlib import Path

from harness import common


def _expr(node, filters):
    """canonical text of an expression; collects the filter chain (outermost last)"""
    import jinja2.nodes as N

    if isinstance(node, N.Filter):
        inner = _expr(node.node, filters) if node.node is not None else "?"
        filters.append(node.name)
        return inner
    if isinstance(node, N.Getattr):
        return _expr(node.node, []) + "." + node.attr
    if isinstance(node, N.Getitem):
        arg = node.arg
        a = repr(arg.value) if isinstance(arg, N.Const) else "?"
        return _expr(node.node, []) + "[" + a + "]"
    if isinstance(node, N.Name):
        return node.name
    if isinstance(node, N.Const):
        return repr(node.value)
    if isinstance(node, N.Call):
        return _expr(node.node, []) + "()"
    return "<" + type(node).__name__ + ">"


def extract_sites(repo: Path):
    import jinja2
    import jinja2.nodes as N

    tdir = repo / "ford" / "templates"
    env = jinja2.Environment(trim_blocks=True, lstrip_blocks=True)
    sites = []
    files = sorted(tdir.glob("*.html"))
    if not files:
        raise RuntimeError(f"no templates under {tdir}")
    for f in files:
        tree = env.parse(f.read_text())

        def walk(node, scope):
            if isinstance(node, N.Macro):
                scope = node.name
            elif isinstance(node, N.Block):
                scope = "block:" + node.name
            if isinstance(node, N.Output):
                for child in node.nodes:
                    if isinstance(child, N.TemplateData):
                        continue
                    filters: list[str] = []
                    e = _expr(child, filters)
                    if "." in e and not e.startswith("<") and not e.endswith("()"):
                        sites.append((f.name, scope, child.lineno, e, filters))
                    # expressions nested in calls / conditionals are not output sites of their own
                return
            for ch in node.iter_child_nodes():
                walk(ch, scope)

        walk(tree, "top")
    if not any(s[1] == "variable_list" and s[3] == "var.initial" for s in sites):
        raise RuntimeError("variable_list / var.initial output expression not found in macros.html")
    if not any(s[1] == "proc_line" for s in sites):
        raise RuntimeError("proc_line macro not found in macros.html")
    return sites


def extract_autoescape(repo: Path) -> bool:
    """`env = jinja2.Environment(...)` in ford/output.py: is autoescape switched on?"""
    tree = ast.parse((repo / "ford" / "output.py").read_text())
    for node in ast.walk(tree):
        if isinstance(node, ast.Assign) and any(isinstance(t, ast.Name) and t.id == "env" for t in node.targets):
            call = node.value
            if isinstance(call, ast.Call) and ast.unparse(call.func).endswith("Environment"):
                for kw in call.keywords:
                    if kw.arg == "autoescape":
                        if isinstance(kw.value, ast.Constant):
                            return bool(kw.value.value)
                        return True  # select_autoescape(...) or similar
                return False
    raise RuntimeError("jinja2.Environment(...) assignment to `env` not found in ford/output.py")


def _class_defs(tree):
    return {n.name: n for n in tree.body if isinstance(n, ast.ClassDef)}


def _method(cls, name):
    for n in cls.body:
        if isinstance(n, ast.FunctionDef) and n.name == name:
            return n
    return None


def extract_cleanup_steps(repo: Path):
    """The order of the steps of `_cleanup` of a procedure (ford/sourceform.py) that decide what a
    displayed dummy argument / function result / variable carries: `process_attribs()` (attributes
    of separate attribute statements are attached to `self.variables`), the removal of `external`
    variables, the argument loop and the result match (both move a variable out of
    `self.variables`).  `super()._cleanup()` is expanded in place.  Returns
    {"unit": [...], "proc": [...], "func": [...]} with step names of `Ford.AttrStmt.CleanStep`."""
    tree = ast.parse((repo / "ford" / "sourceform.py").read_text())
    classes = _class_defs(tree)

    def base_of(cname):
        bases = [ast.unparse(b) for b in classes[cname].bases]
        if len(bases) != 1 or bases[0] not in classes:
            raise RuntimeError(f"sourceform.py: class {cname} has unexpected bases {bases}")
        return bases[0]

    def steps_of(cname, depth=0):
        if depth > 6:
            raise RuntimeError("sourceform.py: _cleanup inheritance chain too deep")
        if cname not in classes:
            raise RuntimeError(f"sourceform.py: class {cname} not found")
        fn = _method(classes[cname], "_cleanup")
        if fn is None:
            return steps_of(base_of(cname), depth + 1)
        out = []
        for st in fn.body:
            text = ast.unparse(st)
            if isinstance(st, ast.Expr) and isinstance(st.value, ast.Constant):
                continue
            if text == "self.process_attribs()":
                out.append("attribs")
            elif text == "super()._cleanup()":
                out += steps_of(base_of(cname), depth + 1)
            elif isinstance(st, ast.For) and "enumerate(self.args)" in ast.unparse(st.iter):
                if "self.variables.remove(var)" not in text or "self.args[i] = arg" not in text:
                    raise RuntimeError(f"{cname}._cleanup: the argument loop has an unexpected body")
                out.append("matchArgs")
            elif isinstance(st, ast.If) and ast.unparse(st.test) == "not isinstance(self.retvar, FortranVariable)":
                if "self.variables.remove(var)" not in text or "self.retvar = var" not in text:
                    raise RuntimeError(f"{cname}._cleanup: the result match has an unexpected body")
                out.append("matchResult")
            elif isinstance(st, ast.Assign) and ast.unparse(st.targets[0]) == "self.variables":
                forms = {"[v for v in self.variables if 'external' not in v.attribs]": False,
                         # since fix 04d703a the keyword is compared in lower case
                         "[v for v in self.variables if 'external' not in [attr.lower() for attr in v.attribs]]": True}
                if ast.unparse(st.value) in forms:
                    EXTERNAL_CI.append(forms[ast.unparse(st.value)])
                if ast.unparse(st.value) not in forms:
                    raise RuntimeError(f"{cname}._cleanup: unexpected assignment to self.variables: {text[:90]!r}")
                out.append("dropExternal")
            elif isinstance(st, ast.Assign) and ast.unparse(st.targets[0]).startswith("self.all_procs"):
                continue
            elif isinstance(st, (ast.For, ast.If, ast.Assign)) and "self.variables" not in text \
                    and "self.args" not in text and "retvar" not in text and "attr_dict" not in text \
                    and "attribs" not in text and "process_attribs" not in text and "_cleanup" not in text:
                # a step that touches neither the variables, the arguments, the result nor the recorded
                # attribute statements (e.g. the procedure table, a constructor's accessibility) is not a
                # step of the attribute attachment
                continue
            else:
                raise RuntimeError(f"{cname}._cleanup: unrecognised statement {text[:90]!r}")
        return out

    for sub in ("FortranSubroutine",):
        if _method(classes.get(sub, ast.ClassDef(name=sub, body=[])), "_cleanup") is not None:
            raise RuntimeError(f"sourceform.py: {sub} now has its own _cleanup (not translated)")
    res = {"unit": steps_of("FortranCodeUnit"), "proc": steps_of("FortranSubroutine"), "func": steps_of("FortranFunction")}
    for k, need in (("unit", {"attribs"}), ("proc", {"attribs", "matchArgs"}), ("func", {"attribs", "matchArgs", "matchResult"})):
        if not need <= set(res[k]):
            raise RuntimeError(f"sourceform.py: _cleanup of {k}: steps {res[k]} lack {sorted(need - set(res[k]))}")
    return res


CLEANUP: dict = {}  # filled by translate(): the step orders last written


EXTERNAL_CI: list = []


def lean_str(s: str) -> str:
    return '"' + s.replace("\\", "\\\\").replace('"', '\\"') + '"'


def translate():
    repo = common.REPO
    sites = extract_sites(repo)
    auto = extract_autoescape(repo)
    EXTERNAL_CI.clear()
    steps = extract_cleanup_steps(repo)
    if not EXTERNAL_CI or any(x != EXTERNAL_CI[0] for x in EXTERNAL_CI):
        raise RuntimeError(f"sourceform.py: the `external` filter of _cleanup was not found in one form: {EXTERNAL_CI}")
    common.write_if_changed(
        common.LEAN / "FordModel" / "Generated" / "C18Cfg.lean",
        "/- GENERATED by translate/c18.py from ford/sourceform.py - do not edit -/\n"
        "namespace Ford.Generated.C18Cfg\n\n"
        "/-- the `external` filter of `_cleanup` compares the attribute in lower case -/\n"
        f"def externalCI : Bool := {'true' if EXTERNAL_CI[0] else 'false'}\n\n"
        "end Ford.Generated.C18Cfg\n")
    CLEANUP.clear()
    CLEANUP.update(steps)

    def step_list(k):
        return "[" + ", ".join("." + x for x in steps[k]) + "]"

    out = [
        "/- GENERATED by translate/c18.py from ford/templates/*.html, ford/output.py and ford/sourceform.py - do not edit -/",
        "import FordModel.Escape",
        "import FordModel.AttrStmt",
        "namespace Ford.Generated.C18",
        "open Ford.Html",
        "",
        "/-- the steps of `_cleanup` (ford/sourceform.py) that touch `self.variables` / `self.args` / `self.retvar`,",
        "    in source order, `super()._cleanup()` expanded: FortranCodeUnit, FortranSubroutine, FortranFunction -/",
        f"def unitCleanupSteps : List Ford.AttrStmt.CleanStep := {step_list('unit')}",
        f"def procCleanupSteps : List Ford.AttrStmt.CleanStep := {step_list('proc')}",
        f"def funcCleanupSteps : List Ford.AttrStmt.CleanStep := {step_list('func')}",
        "",
        f"def autoescape : Bool := {'true' if auto else 'false'}",
        "",
        "def escapeSites : List Site := [",
    ]
    rows = []
    for t, scope, line, e, filters in sites:
        fl = "[" + ", ".join(lean_str(x) for x in filters) + "]"
        rows.append(f"  ⟨{lean_str(t)}, {lean_str(scope)}, {line}, {lean_str(e)}, {lean_str(e.rsplit(".", 1)[1])}, {fl}⟩")
    out.append(",\n".join(rows))
    out += ["]", "", "end Ford.Generated.C18", ""]
    common.write_if_changed(common.LEAN / "FordModel" / "Generated" / "C18.lean", "\n".join(out))
    return sites, auto


if __name__ == "__main__":
    s, a = translate()
    print(len(s), "sites; autoescape =", a, "; cleanup steps", CLEANUP)
