r"""G2 + G7 for C11: the tables the `[[...]]` lookup and the URL rule consist of,
regenerated from the working tree on every run and written to
lean/FordModel/Generated/C11.lean.

  linkTypes      ford.fortran_project.LINK_TYPES      (dict order = search order)
  sublinkTypes   ford.sourceform.SUBLINK_TYPES
  childrenOrder  the attribute names inside FortranBase.children's `self.iterator(...)` (ast)
  nonListChildren  the `non_list_children` list literal of the same property (ast)
  getDirOwner    concrete entity class -> class whose `get_dir` it inherits
  dirAlways / dirIfParent / dirParents   the three isinstance tuples of FortranBase.get_dir,
                 expanded to concrete classes with issubclass
  anchorClasses  the isinstance tuple of FortranBase.get_url (anchor on the parent's page)
  docComponentKinds / docItemKinds   the kind names documented in
                 docs/user_guide/writing_documentation.rst (section Links)
  mdBaseUrl / projDocsPath / summaryPath / pageTreeRoot   (ast, ford/__init__.py `main`) the setting handed to
                 `MetaMarkdown(base_url=...)`, the `path=` of the conversion of the project file's text and of
                 the summary ("none" when absent), the argument bound to `get_page_tree`'s `output_dir`
  pagePathRoot   (ast, ford/pagetree.py `PageNode.__init__`) the root of `output_path = <root> / "page" /
                 self.path.parent`, the location a static page's text is converted at
  linkRe         (round 3) `FordLinkProcessor.LINK_RE`, parsed with Python's own regex parser (comments and
                 layout of the verbose pattern vanish) and dumped in a canonical form (a list of tokens); when the `name` group has
                 the shape `\w+ (?: <sep> \w+ )?` or `...)*` its tail is replaced by the marker NAMETAIL and
                 described by linkNameSeps (the separator characters) and linkNameMany (`*` instead of `?`) -
                 the two parameters of the model's tokenizer, so that a repaired pattern that admits more
                 separators (file names with `-` / several dots) is followed without touching the model
  linkReFlags    the flags of the compiled pattern
  linkHandle     (ast) what `getCompiledRegExp` returns and what `handleMatch` returns (element, start, end)
  linkFindParams the parameter names of `Project.find`, which receives `**m.groupdict()`
"""
import ast
import inspect
import re

from harness import common


def _cls(tree, name):
    return next(n for n in tree.body if isinstance(n, ast.ClassDef) and n.name == name)


def _fn(cls, name):
    return next(n for n in cls.body if isinstance(n, ast.FunctionDef) and n.name == name)


def _isinstance_tuples(fn):
    """[(subject source, [class names])] for every isinstance(x, (A, B, ...)) call, in source order"""
    out = []
    for node in ast.walk(fn):
        if isinstance(node, ast.Call) and isinstance(node.func, ast.Name) and node.func.id == "isinstance":
            subj = ast.unparse(node.args[0])
            t = node.args[1]
            names = [ast.unparse(e) for e in t.elts] if isinstance(t, ast.Tuple) else [ast.unparse(t)]
            out.append((node.lineno, node.col_offset, subj, names))
    out.sort()
    return [(s, n) for _, _, s, n in out]


def probe_children(sf):
    """Order in which `FortranBase.children` visits the collections of an entity, and the attributes it yields as
    single objects - observed on the real property: a stand-in whose every attribute is a one-element list holding
    the attribute's name.  A collection attribute shows up as its name (the element), a single-object attribute as
    the list itself.  Independent of how the property is written (literals, hoisted tables, helper generators)."""
    class Recorder(sf.FortranBase):
        def __init__(self):  # noqa - no parsing
            pass

        def __getattr__(self, name):
            if name.startswith("__"):
                raise AttributeError(name)
            return [name]

    seen = list(Recorder().children)
    order = [x for x in seen if isinstance(x, str)]
    non_list = [x[0] for x in seen if isinstance(x, list)]
    if len(order) < 10 or not non_list or len(order) + len(non_list) != len(seen) or len(set(order)) != len(order):
        raise ValueError(f"FortranBase.children: unexpected probe result {seen}")
    return order, non_list


def extract():
    common.import_ford()
    import ford.fortran_project as fp
    import ford.sourceform as sf

    link_types = list(fp.LINK_TYPES.items())
    sublink_types = list(sf.SUBLINK_TYPES.items())
    if len(link_types) < 10 or len(sublink_types) < 5:
        raise ValueError("LINK_TYPES / SUBLINK_TYPES unexpectedly small")

    src = (common.REPO / "ford" / "sourceform.py").read_text()
    tree = ast.parse(src)
    base = _cls(tree, "FortranBase")
    order, non_list = probe_children(sf)
    # where the property still has the shape of a literal list, the probe must agree with what is written
    try:
        children = _fn(base, "children")
        it_calls = [n for n in ast.walk(children)
                    if isinstance(n, ast.Call) and ast.unparse(n.func) == "self.iterator"]
        nl = [n for n in ast.walk(children) if isinstance(n, ast.Assign)
              and ast.unparse(n.targets[0]) == "non_list_children"]
        written = ([ast.literal_eval(a) for a in it_calls[0].args], ast.literal_eval(nl[0].value)) \
            if len(it_calls) == 1 and len(nl) == 1 else None
    except (ValueError, SyntaxError, IndexError):  # rewritten (hoisted tables, starred arguments ...): probe only
        written = None
    if written is not None and written != (order, non_list):
        raise ValueError(f"FortranBase.children: probe {(order, non_list)} disagrees with the source {written}")

    # concrete entity classes
    classes = {n: c for n, c in vars(sf).items()
               if inspect.isclass(c) and issubclass(c, sf.FortranBase) and c.__module__ == sf.__name__}
    ns = dict(vars(sf))

    def expand(names):
        tup = tuple(ns[n] for n in names)
        return sorted(n for n, c in classes.items() if issubclass(c, tup))

    gd = _isinstance_tuples(_fn(base, "get_dir"))
    if [s for s, _ in gd] != ["self", "self", "self.parent"]:
        raise ValueError(f"FortranBase.get_dir: unexpected isinstance structure {[s for s, _ in gd]}")
    gu = _isinstance_tuples(_fn(base, "get_url"))
    if [s for s, _ in gu] != ["self"]:
        raise ValueError("FortranBase.get_url: unexpected isinstance structure")
    owner = []
    for n, c in sorted(classes.items()):
        own = c.get_dir.__qualname__.split(".")[0]
        uown = c.get_url.__qualname__.split(".")[0]
        if uown != "FortranBase":
            raise ValueError(f"{n} overrides get_url")
        owner.append((n, own))
    # documented kinds
    rst = (common.REPO / "docs" / "user_guide" / "writing_documentation.rst").read_text()
    m = re.search(r"^Links\n-----\n(.*?)\n\.\. _non-fortran-source-files:", rst, re.S | re.M)
    if not m:
        raise ValueError("section Links not found in writing_documentation.rst")
    sec = m.group(1)
    m2 = re.search(r"The available options are:(.*?)The majority of these", sec, re.S)
    m3 = re.search(r"but has different options:(.*?)None of these options are interchangeable", sec, re.S)
    if not (m2 and m3):
        raise ValueError("kind lists not found in section Links")
    comp = re.findall(r'"(\w+)"', m2.group(1))
    item = re.findall(r'"(\w+)"', m3.group(1))
    if len(comp) < 10 or len(item) < 8:
        raise ValueError("documented kind lists unexpectedly short")
    sites = conversion_sites()
    return {
        **sites, **link_pattern(),
        "linkTypes": link_types, "sublinkTypes": sublink_types, "childrenOrder": order,
        "nonListChildren": non_list, "getDirOwner": owner,
        "dirAlways": expand(gd[0][1]), "dirIfParent": expand(gd[1][1]), "dirParents": expand(gd[2][1]),
        "anchorClasses": expand(gu[0][1]), "docComponentKinds": comp, "docItemKinds": item,
    }


def _calls(fn):
    return [n for n in ast.walk(fn) if isinstance(n, ast.Call)]


def _kw(call, name):
    for k in call.keywords:
        if k.arg == name:
            return ast.unparse(k.value)
    return None


def conversion_sites():
    """Where the texts that have no entity context are converted (the `path=` they are given) and what
    the Markdown object's base URL is - the call sites in `ford.main` and `PageNode.__init__`."""
    tree = ast.parse((common.REPO / "ford" / "__init__.py").read_text())
    main = next((n for n in tree.body if isinstance(n, ast.FunctionDef) and n.name == "main"), None)
    if main is None:
        raise ValueError("ford/__init__.py: function main not found")
    mk = [c for c in _calls(main) if ast.unparse(c.func) == "MetaMarkdown"]
    if len(mk) != 1 or _kw(mk[0], "base_url") is None:
        raise ValueError("ford.main: expected exactly one MetaMarkdown(..., base_url=...) call")
    conv = [c for c in _calls(main) if isinstance(c.func, ast.Attribute) and c.func.attr == "convert" and c.args]
    pd = [c for c in conv if ast.unparse(c.args[0]) == "proj_docs"]
    sm = [c for c in conv if ast.unparse(c.args[0]) == "proj_data.summary"]
    if len(pd) != 1 or len(sm) != 1:
        raise ValueError("ford.main: conversion of proj_docs / proj_data.summary not found (or not unique)")
    if len(pd[0].args) != 1 or len(sm[0].args) != 1 or _kw(pd[0], "context") or _kw(sm[0], "context"):
        raise ValueError("ford.main: conversion of proj_docs / summary has an unexpected argument shape")
    gp = [c for c in _calls(main) if ast.unparse(c.func) == "get_page_tree"]
    if len(gp) != 1:
        raise ValueError("ford.main: expected exactly one get_page_tree(...) call")
    ptree = ast.parse((common.REPO / "ford" / "pagetree.py").read_text())
    gpt = next((n for n in ptree.body if isinstance(n, ast.FunctionDef) and n.name == "get_page_tree"), None)
    if gpt is None:
        raise ValueError("ford/pagetree.py: get_page_tree not found")
    params = [a.arg for a in gpt.args.args]
    if "output_dir" not in params:
        raise ValueError("get_page_tree has no parameter output_dir")
    i = params.index("output_dir")
    root_arg = _kw(gp[0], "output_dir") or (ast.unparse(gp[0].args[i]) if i < len(gp[0].args) else None)
    if root_arg is None:
        raise ValueError("ford.main: argument bound to get_page_tree's output_dir not found")
    # get_page_tree must hand its output_dir on to every PageNode unchanged
    pn_calls = [c for c in _calls(gpt) if ast.unparse(c.func) == "PageNode"]
    init = _fn(_cls(ptree, "PageNode"), "__init__")
    iparams = [a.arg for a in init.args.args][1:]   # without self
    if "output_dir" not in iparams or not pn_calls:
        raise ValueError("PageNode.__init__ has no parameter output_dir / no PageNode(...) call in get_page_tree")
    j = iparams.index("output_dir")
    for c in pn_calls:
        got = _kw(c, "output_dir") or (ast.unparse(c.args[j]) if j < len(c.args) else None)
        if got != "output_dir":
            raise ValueError(f"get_page_tree passes {got!r} as PageNode's output_dir")
    asg = [n for n in ast.walk(init) if isinstance(n, ast.Assign) and ast.unparse(n.targets[0]) == "output_path"]
    if len(asg) != 1:
        raise ValueError("PageNode.__init__: assignment to output_path not found")
    v = asg[0].value
    # shape: <root> / 'page' / self.path.parent
    if not (isinstance(v, ast.BinOp) and isinstance(v.op, ast.Div) and ast.unparse(v.right) == "self.path.parent"
            and isinstance(v.left, ast.BinOp) and isinstance(v.left.op, ast.Div)
            and isinstance(v.left.right, ast.Constant) and v.left.right.value == "page"):
        raise ValueError(f"PageNode.__init__: output_path has an unexpected shape {ast.unparse(v)!r}")
    pconv = [c for c in _calls(init) if isinstance(c.func, ast.Attribute) and c.func.attr == "convert"]
    if len(pconv) != 1 or _kw(pconv[0], "path") not in ("output_path.resolve()", "output_path") or _kw(pconv[0], "context"):
        raise ValueError("PageNode.__init__: the page text is not converted with path=output_path[.resolve()]")
    return {
        "mdBaseUrl": _kw(mk[0], "base_url"),
        "projDocsPath": _kw(pd[0], "path") or "none",
        "summaryPath": _kw(sm[0], "path") or "none",
        "pageTreeRoot": root_arg,
        "pagePathRoot": ast.unparse(v.left.left),
    }


def _rx_dump(items, names):
    """canonical text of a parsed regular expression (re._parser.SubPattern)"""
    try:
        import re._parser as sp
    except ImportError:  # Python < 3.11
        import sre_parse as sp
    out = []
    for op, av in items:
        o = str(op)
        if o == "LITERAL":
            out.append(f"lit({chr(av)})")
        elif o == "NOT_LITERAL":
            out.append(f"notlit({chr(av)})")
        elif o == "ANY":
            out.append("any")
        elif o == "IN":
            out.append("in[" + " ".join(_rx_set(i) for i in av) + "]")
        elif o in ("MAX_REPEAT", "MIN_REPEAT", "POSSESSIVE_REPEAT"):
            lo, hi, sub = av
            his = "inf" if hi == sp.MAXREPEAT else str(hi)
            out.append(f"{o.lower()}({lo},{his},{_rx_dump(sub, names)})")
        elif o == "SUBPATTERN":
            g, add, dele, sub = av
            out.append(f"group:{names.get(g, g)}[{add},{dele}]({_rx_dump(sub, names)})")
        elif o == "BRANCH":
            out.append("branch(" + " | ".join(_rx_dump(b, names) for b in av[1]) + ")")
        elif o == "AT":
            out.append(f"at({av})")
        elif o in ("ASSERT", "ASSERT_NOT"):
            out.append(f"{o.lower()}({av[0]},{_rx_dump(av[1], names)})")
        elif o == "GROUPREF":
            out.append(f"ref({av})")
        else:
            out.append(f"{o}({av!r})")
    return "seq(" + " ".join(out) + ")"


def _rx_set(item):
    op, av = item
    o = str(op)
    if o == "LITERAL":
        return f"lit({chr(av)})"
    if o == "CATEGORY":
        return str(av).lower()
    if o == "RANGE":
        return f"range({chr(av[0])}-{chr(av[1])})"
    if o == "NEGATE":
        return "negate"
    return f"{o}({av!r})"


def _is_word_plus(item):
    return (str(item[0]) == "MAX_REPEAT" and item[1][0] == 1 and str(item[1][1]) == "MAXREPEAT"
            and [(str(o), str(a)) for o, a in item[1][2]] == [("IN", "[(CATEGORY, CATEGORY_WORD)]")])


def link_pattern():
    """`FordLinkProcessor.LINK_RE` and how the inline processor uses it."""
    try:
        import re._parser as sp
    except ImportError:  # Python < 3.11
        import sre_parse as sp
    common.import_ford()
    import ford._markdown as fm
    import ford.fortran_project as fp

    proc = getattr(fm, "FordLinkProcessor", None)
    rx = getattr(proc, "LINK_RE", None)
    if rx is None or not hasattr(rx, "pattern"):
        raise ValueError("ford._markdown.FordLinkProcessor.LINK_RE (compiled pattern) not found")
    parsed = sp.parse(rx.pattern, rx.flags)
    names = {v: k for k, v in parsed.state.groupdict.items()}
    items = list(parsed)
    seps, many, recognised = ["."], False, False
    for i, (op, av) in enumerate(items):
        if str(op) == "SUBPATTERN" and names.get(av[0]) == "name":
            sub = list(av[3])
            if len(sub) == 2 and _is_word_plus(sub[0]) and str(sub[1][0]) == "MAX_REPEAT":
                lo, hi, tail = sub[1][1]
                tail = list(tail)
                if lo == 0 and (hi == 1 or hi == sp.MAXREPEAT) and len(tail) == 2 and _is_word_plus(tail[1]):
                    sop, sav = tail[0]
                    cs = None
                    if str(sop) == "LITERAL":
                        cs = [chr(sav)]
                    elif str(sop) == "IN" and all(str(o) == "LITERAL" for o, _ in sav):
                        cs = [chr(a) for _, a in sav]
                    if cs:
                        seps, many, recognised = cs, hi != 1, True
                        items[i] = (op, (av[0], av[1], av[2], [sub[0], ("NAMETAIL", None)]))
    skeleton = _rx_dump(items, names)
    flags = sorted(f.name for f in re.RegexFlag if f.name and rx.flags & f.value and bin(f.value).count("1") == 1)
    # use of the pattern by the inline processor
    tree = ast.parse((common.REPO / "ford" / "_markdown.py").read_text())
    cls = _cls(tree, "FordLinkProcessor")
    rets = {}
    for fn_name in ("getCompiledRegExp", "handleMatch"):
        fn = _fn(cls, fn_name)
        r = [n for n in ast.walk(fn) if isinstance(n, ast.Return)]
        if len(r) != 1:
            raise ValueError(f"FordLinkProcessor.{fn_name}: expected exactly one return")
        rets[fn_name] = ast.unparse(r[0].value)
    import inspect as _inspect
    params = [p for p in _inspect.signature(fp.Project.find).parameters if p != "self"]
    return {
        "linkRe": skeleton.split(" "), "linkNameSeps": seps, "linkNameMany": many, "linkNameRecognised": recognised,
        "linkReFlags": flags, "linkHandle": rets["getCompiledRegExp"] + " ; " + rets["handleMatch"],
        "linkFindParams": params, "linkGroups": [names[k] for k in sorted(names)],
    }


SITE_KEYS = ("mdBaseUrl", "projDocsPath", "summaryPath", "pageTreeRoot", "pagePathRoot")


def inline_registry():
    """Round 6: the order in which Python-Markdown applies the inline patterns of a `MetaMarkdown` built the way
    `ford.main` builds it (with a project => `FordLinkExtension` is registered), read from the live registries:
    names in order of application (descending priority) with their priorities; the names of the preprocessors
    and block processors (fenced / indented code blocks are taken out before any inline pattern runs)."""
    common.import_ford()
    import ford._markdown as M

    md = M.MetaMarkdown(".", project=object())

    def dump(reg):
        reg._sort()
        return [(p.name, p.priority) for p in reg._priority]

    inline = dump(md.inlinePatterns)
    if not inline or any(not float(p).is_integer() or p < 0 for _, p in inline):
        raise ValueError(f"inline pattern registry has an unexpected shape: {inline}")
    procs = [type(md.inlinePatterns[n]).__name__ for n, _ in inline]
    link_names = [n for n, c in zip([n for n, _ in inline], procs) if c == "FordLinkProcessor"]
    if len(link_names) != 1:
        raise ValueError(f"expected exactly one registered FordLinkProcessor, found {link_names}")
    return {"inlinePatterns": [(n, int(p)) for n, p in inline],
            "linkPatternName": link_names[0],
            "preprocessors": [n for n, _ in dump(md.preprocessors)],
            "blockProcessors": [n for n, _ in dump(md.parser.blockprocessors)]}


def lstr(s):
    return '"' + s.replace("\\", "\\\\").replace('"', '\\"') + '"'


def lchar(c):
    return f"'{c}'" if (33 <= ord(c) < 127 and c not in "'\\") else f"Char.ofNat {ord(c)}"


def translate():
    t = extract()
    L = ["/- GENERATED by translate/c11.py from ford/fortran_project.py, ford/sourceform.py, ford/__init__.py,",
         "   ford/pagetree.py and docs/user_guide/writing_documentation.rst - do not edit -/",
         "namespace Ford.Generated.C11", ""]
    for key in ("linkTypes", "sublinkTypes", "getDirOwner"):
        L.append(f"def {key} : List (String × String) := [")
        L.append(",\n".join(f"  ({lstr(a)}, {lstr(b)})" for a, b in t[key]))
        L.append("]\n")
    for key in ("childrenOrder", "nonListChildren", "dirAlways", "dirIfParent", "dirParents", "anchorClasses",
                "docComponentKinds", "docItemKinds"):
        L.append(f"def {key} : List String := [" + ", ".join(lstr(a) for a in t[key]) + "]\n")
    for key in SITE_KEYS + ("linkHandle",):
        L.append(f"def {key} : String := {lstr(t[key])}\n")
    L.append("def linkRe : List String := [\n  " + ",\n  ".join(lstr(a) for a in t["linkRe"]) + "]\n")
    for key in ("linkReFlags", "linkFindParams", "linkGroups"):
        L.append(f"def {key} : List String := [" + ", ".join(lstr(a) for a in t[key]) + "]\n")
    L.append("def linkNameSeps : List Char := [" + ", ".join(lchar(c) for c in t["linkNameSeps"]) + "]\n")
    L.append(f"def linkNameMany : Bool := {'true' if t['linkNameMany'] else 'false'}\n")
    L.append(f"def linkNameRecognised : Bool := {'true' if t['linkNameRecognised'] else 'false'}\n")
    reg = inline_registry()
    t.update(reg)
    L.append("def inlinePatterns : List (String × Nat) := [\n  " +
             ",\n  ".join(f"({lstr(n)}, {p})" for n, p in reg["inlinePatterns"]) + "]\n")
    L.append(f"def linkPatternName : String := {lstr(reg['linkPatternName'])}\n")
    for key in ("preprocessors", "blockProcessors"):
        L.append(f"def {key} : List String := [" + ", ".join(lstr(a) for a in reg[key]) + "]\n")
    L.append("end Ford.Generated.C11\n")
    common.write_if_changed(common.LEAN / "FordModel" / "Generated" / "C11.lean", "\n".join(L))
    return t


if __name__ == "__main__":
    for k, v in translate().items():
        print(k, v)
