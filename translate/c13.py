"""C13 translator: the *decision table* of the interface-to-implementation links.

`ProcNode.__init__` (ford/graphs.py) links an interface node to

  * every specific procedure of a generic interface  (`m.procedure for m in obj.modprocs`), and
  * the implementation of a separate module procedure (`obj.procedure.module`)

under guards that are written as truthiness / `isinstance` / `getattr(.., "visible", True)` tests.
What these guards let through depends only on (slot, Python class of the value, visibility), so the
table is finite.  It is read off the working tree by *running the real constructor* on stub values
of every class defined in `ford.sourceform` (plus None / False / True / str) and regenerated as
lean/FordModel/Generated/C13.lean:

  ifaceRules : List IfaceRule     one row per class, in the order of `class_names()`
      isProc           `ford.graphs.is_proc` holds for instances (they get a procedure node)
      isStr            the value is a string (name of an external procedure)
      isProcedure      subclass of `FortranProcedure`
      declaresModule   the class (or a base) assigns `module` / `self.module`: its instances can be
                       marked as the implementation of a separate module procedure (ast)
      modproc / modprocHidden     linked as a specific procedure when visible / when not visible
      impl / implHidden           linked as `procedure.module` when visible / when not visible

The model (`Graph.targets`) consults the table, the theorems `iface_rule_*` of Props/C13.lean are
stated over it: an edit of the guards in the source changes a kernel-checked obligation.

Second table (round 4): the *links of the node constructors*.  Every constructor of ford/graphs.py
(`ModNode`, `SubmodNode`, `TypeNode`, `ProcNode`, `ProgNode`, `BlockNode`, `FileNode`) reads some
attributes of its Fortran object ("slots": `uses`, parent submodule / ancestor module, `extends`,
component prototypes, `calls`, `bindings`, the `deplist` of the program units of a file) and must store
every target it finds **on its own node and, inversely, on the node of the target**.  Which slots a
constructor reads and whether both directions are written is read off the working tree by *running the real
constructors* (real `GraphData`) on a stub object of every class of `ford.sourceform` the graph code
accepts, with every slot holding a distinct sentinel object:

  ctorLinks : List CtorLink     one row per (class, slot, attribute the slot was offered through)
      cls / name    row of `ifaceRules` / name of the Python class of the object the node is made for
      kind          code of the node class (`Graph.Kind.code`: 0 module, 1 submodule, 2 type, 3 procedure,
                    4 program, 5 file, 6 block data)
      slot          code of the slot (`Graph.Slot.code`: 0 uses, 1 ancestor, 2 extends, 3 components,
                    4 calls, 5 bindings, 6 file dependencies)
      via           the Python attribute the sentinel was offered through
      fwd / inv     the node of the sentinel is stored on the new node / the new node is stored on the
                    node of the sentinel
  ctorClasses : List (Nat × Nat)   (row of `ifaceRules`, kind code) of every class that gets a node with links

A slot whose sentinel never gets a node is not read by that constructor and has no row - except the lists of
program units of a source file (found by `ast` in `FortranSourceFile.__init__`), which always have one: a
kind of program unit whose dependencies the file node ignores shows as `fwd := false`.

Third table (round 4): `projectLists` - the entity lists of `Project` (ast, ford/fortran_project.py) and
whether `Documentation.__init__` (ast, ford/output.py) registers their items with the graph manager; the
harness registers exactly the lists found there.

A construct that cannot be found / probed raises (tie broken, never a pass).
"""
from __future__ import annotations

import ast
import types

from harness import common

PSEUDO = ["NoneType", "False", "True", "str"]
_PSEUDO_VALUES = {"NoneType": None, "False": False, "True": True, "str": "some_external_name"}


def _sf_classes(sf):
    return [c for _, c in sorted(vars(sf).items())
            if isinstance(c, type) and c.__module__ == sf.__name__ and issubclass(c, sf.FortranBase)]


def class_names(ford=None) -> list[str]:
    """row order of the generated table (the harness sends the row index of every entity)"""
    ford = ford or common.import_ford()
    import ford.sourceform as sf
    return PSEUDO + [c.__name__ for c in _sf_classes(sf)]


def class_index(names: list[str], obj) -> int:
    """row of the table that describes `obj` (exact class, else nearest base in the table)"""
    if obj is None:
        return names.index("NoneType")
    if obj is False or obj is True:
        return names.index(str(obj))
    if isinstance(obj, str):
        return names.index("str")
    for c in type(obj).__mro__:
        if c.__name__ in names[len(PSEUDO):]:
            return names.index(c.__name__)
    return len(names)   # no row: the model's default rule (nothing linked)


def _declares_module(sf) -> set[str]:
    """names of the classes of ford.sourceform whose body assigns `module = ..` or `self.module = ..`"""
    tree = ast.parse((common.REPO / "ford" / "sourceform.py").read_text())
    out = set()
    for cls in tree.body:
        if not isinstance(cls, ast.ClassDef):
            continue
        for n in ast.walk(cls):
            targets = []
            if isinstance(n, ast.Assign):
                targets = n.targets
            elif isinstance(n, (ast.AnnAssign, ast.AugAssign)):
                targets = [n.target]
            for t in targets:
                if isinstance(t, ast.Name) and t.id == "module" and n in cls.body:
                    out.add(cls.name)
                if isinstance(t, ast.Attribute) and t.attr == "module" and isinstance(t.value, ast.Name) \
                        and t.value.id == "self":
                    out.add(cls.name)
    if not out:
        raise LookupError("no class of ford/sourceform.py assigns `module`: the marker of separate module "
                          "procedures was not found")
    return out


class _Probe:
    """runs the real `ProcNode.__init__` on a stub interface whose slot holds one value"""

    def __init__(self, ford):
        import ford.graphs as G
        import ford.sourceform as sf

        self.G, self.sf = G, sf
        if not hasattr(G, "ProcNode") or not hasattr(G, "GraphData"):
            raise LookupError("ford.graphs.ProcNode / GraphData not found")

        class FakeNode:
            def __init__(self, target):
                self.target = target
                self.ident = f"fake-{id(self)}"
                self.called_by, self.interfaced_by, self.used_by = set(), set(), set()

        class FakeData(G.GraphData):
            """records which values the constructor asks a node for (no recursion into them)"""

            def get_procedure_node(self, procedure, hist=None):
                return FakeNode(procedure)

            def get_node(self, obj, hist=None):
                return FakeNode(obj)

            def get_module_node(self, mod):
                return FakeNode(mod)

        self.FakeData = FakeData
        stub = dict(get_dir=lambda self: "interface", get_url=lambda self: None, ident="probe", name="probe")
        self.Generic = type("ProbeGeneric", (sf.FortranInterface,), dict(stub))
        self.ModProcIface = type("ProbeModProcIface", (sf.FortranModuleProcedureInterface,), dict(stub))

    def linked(self, slot: str, value) -> bool:
        if slot == "modproc":
            obj = object.__new__(self.Generic)
            obj.modprocs = [types.SimpleNamespace(procedure=value, name="probe_specific")]
        else:
            obj = object.__new__(self.ModProcIface)
            obj.modprocs = []
            obj.procedure = types.SimpleNamespace(module=value, name="probe")
        gd = self.FakeData("..", False, False)
        node = self.G.ProcNode(obj, gd)
        if node.proctype != "interface":
            raise LookupError("a FortranInterface stub is not given proctype 'interface' by ProcNode")
        hits = [n for n in node.interfaces if n.target is value or (isinstance(value, str) and n.target == value)]
        for n in hits:   # both directions are written by adjacent statements
            if node not in n.interfaced_by:
                raise LookupError("ProcNode stores an interface link without its inverse")
        extra = [n for n in node.interfaces if n not in hits]
        if extra:
            raise LookupError(f"ProcNode links an interface to something that is in neither slot: {extra}")
        return bool(hits)


def extract(ford=None) -> list[dict]:
    ford = ford or common.import_ford()
    import ford.graphs as G
    import ford.sourceform as sf

    probe = _Probe(ford)
    declares = _declares_module(sf)
    rows = []
    for name in PSEUDO:
        v = _PSEUDO_VALUES[name]
        row = dict(name=name, isProc=False, isStr=isinstance(v, str), isProcedure=False, declaresModule=False)
        for slot in ("modproc", "impl"):
            try:
                row[slot] = probe.linked(slot, v)
            except LookupError:
                raise
            except Exception as e:
                raise LookupError(f"ProcNode.__init__ raises for {slot} = {v!r}: {type(e).__name__}: {e}")
            row[slot + "Hidden"] = row[slot]   # these values have no `visible`
        rows.append(row)
    for cls in _sf_classes(sf):
        row = dict(name=cls.__name__, isStr=False, isProc=bool(G.is_proc(object.__new__(cls))),
                   isProcedure=issubclass(cls, sf.FortranProcedure),
                   declaresModule=any(c.__name__ in declares for c in cls.__mro__))
        for slot in ("modproc", "impl"):
            res = {}
            for vis in (True, False, None):
                v = object.__new__(cls)
                if vis is not None:
                    try:
                        v.visible = vis
                    except AttributeError:
                        raise LookupError(f"`visible` of {cls.__name__} cannot be set")
                try:
                    res[vis] = probe.linked(slot, v)
                except LookupError:
                    raise
                except Exception as e:
                    raise LookupError(f"ProcNode.__init__ raises for {slot} = <{cls.__name__}>: {type(e).__name__}: {e}")
            default = bool(getattr(object.__new__(cls), "visible", True))
            if res[None] != res[default]:
                raise LookupError(f"the link to a {cls.__name__} without `visible` is not the one of "
                                  f"getattr(.., 'visible', True) = {default}")
            row[slot], row[slot + "Hidden"] = res[True], res[False]
        rows.append(row)
    names = class_names(ford)
    if [r["name"] for r in rows] != names:
        raise LookupError("row order of the table differs from class_names()")
    for need in ("FortranSubroutine", "FortranFunction", "FortranInterface", "FortranModuleProcedureInterface",
                 "FortranModuleProcedureImplementation", "FortranBoundProcedure"):
        if need not in names:
            raise LookupError(f"class {need} not found in ford.sourceform")
    return rows


# --------------------------------------------------------------------------
# the links of the node constructors
# --------------------------------------------------------------------------

KIND_CODES = {"ModNode": 0, "SubmodNode": 1, "TypeNode": 2, "ProcNode": 3, "ProgNode": 4, "FileNode": 5,
              "BlockNode": 6}
SLOT_CODES = {"uses": 0, "anc": 1, "ext": 2, "comps": 3, "calls": 4, "bindings": 5, "deps": 6}


def file_unit_lists() -> list[str]:
    """the lists of program units a source file holds: the attributes `FortranSourceFile.__init__`
    declares as `List[Fortran...]` (ast)"""
    tree = ast.parse((common.REPO / "ford" / "sourceform.py").read_text())
    out = []
    for cls in tree.body:
        if isinstance(cls, ast.ClassDef) and cls.name == "FortranSourceFile":
            for fn in cls.body:
                if isinstance(fn, ast.FunctionDef) and fn.name == "__init__":
                    for n in ast.walk(fn):
                        if isinstance(n, ast.AnnAssign) and isinstance(n.target, ast.Attribute) \
                                and isinstance(n.annotation, ast.Subscript) \
                                and getattr(n.annotation.value, "id", "") == "List" \
                                and getattr(n.annotation.slice, "id", "").startswith("Fortran") \
                                and getattr(n.annotation.slice, "id", "") != "FortranBase":
                            out.append(n.target.attr)
    if len(out) < 2:
        raise LookupError("the lists of program units of FortranSourceFile were not found")
    return out


class _CtorProbe:
    """runs the real node constructors on stub objects whose relation slots hold sentinels"""

    def __init__(self, ford):
        import ford.graphs as G
        import ford.sourceform as sf

        self.G, self.sf = G, sf
        self.count = 0
        self.unit_lists = file_unit_lists()
        for need in ("GraphData", "BaseNode"):
            if not hasattr(G, need):
                raise LookupError(f"ford.graphs.{need} not found")

    def stub(self, cls, **attrs):
        """an instance of (a subclass of) `cls` that has an identity and no relation at all"""
        self.count += 1
        ident = f"stub{self.count}"
        sub = type("Stub" + cls.__name__, (cls,), dict(
            get_dir=lambda self: "stub", get_url=lambda self: None, ident=ident, name=ident,
            __hash__=lambda self: id(self), __eq__=lambda self, other: self is other))
        o = object.__new__(sub)
        base = dict(visible=True, parent=None, uses=[], calls=[], bindings=[], extends=None, local_variables=[],
                    parent_submodule=None, ancestor_module=None, modprocs=[], deferred=False,
                    procedure=types.SimpleNamespace(module=None, name=ident))
        for unit_list in self.unit_lists:
            base[unit_list] = []
        for k, v in {**base, **attrs}.items():
            try:
                setattr(o, k, v)
            except AttributeError:
                raise LookupError(f"attribute `{k}` of {cls.__name__} cannot be set on a stub")
        return o

    @staticmethod
    def holds(node, other) -> bool:
        """is `other` stored in some attribute of `node` (directly, or in a set / dict / list)?"""
        for v in vars(node).values():
            if v is other:
                return True
            if isinstance(v, (set, frozenset, dict, list, tuple)) and any(x is other for x in v):
                return True
        return False

    def probe(self, cls, with_parent_submodule: bool):
        """-> (node class name, [(slot, via, touched, fwd, inv)]) or None when the class gets no node with links"""
        G, sf = self.G, self.sf
        sentinels = []      # (slot, via, object)

        def s(slot, via, target_cls, **attrs):
            o = self.stub(target_cls, **attrs)
            sentinels.append((slot, via, o))
            return o

        far_module = self.stub(sf.FortranModule)
        attrs = dict(
            uses=[s("uses", "uses", sf.FortranModule)],
            ancestor_module=s("anc", "ancestor_module", sf.FortranModule),
            extends=s("ext", "extends", sf.FortranType),
            local_variables=[types.SimpleNamespace(vartype="type", name="c", proto=[s("comps", "local_variables", sf.FortranType)])],
            calls=[s("calls", "calls", sf.FortranSubroutine)],
            bindings=[s("bindings", "bindings", sf.FortranSubroutine)],
        )
        if with_parent_submodule:
            attrs["parent_submodule"] = s("anc", "parent_submodule", sf.FortranSubmodule, ancestor_module=far_module)
        for unit_list in self.unit_lists:
            dep = types.SimpleNamespace(source_file=s("deps", unit_list, sf.FortranSourceFile))
            attrs[unit_list] = [types.SimpleNamespace(deplist=[dep])]
        obj = self.stub(cls, **attrs)
        gd = G.GraphData("..", False, False)
        try:
            _, node_type = gd._get_collection_and_node_type(obj)
        except G.BadType:
            return None
        try:
            node = gd.get_node(obj)
        except Exception as e:
            raise LookupError(f"{node_type.__name__}.__init__ raises on a stub {cls.__name__}: {type(e).__name__}: {e}")
        if getattr(node, "fromstr", False):
            return None         # objects of an external project are represented by their name: no links
        colls = [c for c in vars(gd).values() if isinstance(c, dict)]
        rows = []
        for slot, via, target in sentinels:
            tnode = next((c[target] for c in colls if target in c), None)
            rows.append((slot, via, tnode is not None, tnode is not None and self.holds(node, tnode),
                         tnode is not None and self.holds(tnode, node)))
        return node_type.__name__, rows


def extract_ctor(ford=None):
    """-> (rows [dict(cls, name, kind, slot, via, fwd, inv)], classes [(cls, kind)])"""
    ford = ford or common.import_ford()
    import ford.sourceform as sf

    names = class_names(ford)
    probe = _CtorProbe(ford)
    rows, classes = [], []
    for cls in _sf_classes(sf):
        merged = {}
        node_class = None
        for with_parent in (False, True):
            res = probe.probe(cls, with_parent)
            if res is None:
                continue
            node_class, rs = res
            for slot, via, touched, fwd, inv in rs:
                if touched or slot == "deps" and node_class == "FileNode":
                    k = (slot, via)
                    old = merged.get(k, (True, True))
                    merged[k] = (old[0] and fwd, old[1] and inv)
        if node_class is None:
            continue
        if node_class not in KIND_CODES:
            raise LookupError(f"node class {node_class} (for {cls.__name__}) is not known to the model")
        ci = names.index(cls.__name__)
        classes.append((ci, KIND_CODES[node_class]))
        for (slot, via), (fwd, inv) in merged.items():
            rows.append(dict(cls=ci, name=cls.__name__, kind=KIND_CODES[node_class], slot=SLOT_CODES[slot], via=via,
                             fwd=fwd, inv=inv))
    if len({k for _, k in classes}) < len(KIND_CODES):
        raise LookupError("some node class of ford.graphs is not reached by any class of ford.sourceform: "
                          f"{sorted(set(KIND_CODES.values()) - {k for _, k in classes})}")
    return rows, classes


def kind_of_class(ford=None) -> dict[int, int]:
    """row of `ifaceRules` -> kind code, for the harness (entities of a class without a row have no links)"""
    return dict(extract_ctor(ford)[1])


# --------------------------------------------------------------------------
# which entities of a project are handed to the graph manager
# --------------------------------------------------------------------------


def registration_lists() -> list[str]:
    """the lists of the project whose items `Documentation.__init__` (ford/output.py) registers with the
    graph manager, in source order: the `for ... in [project.a, project.b, ...]` loop around `.register(`"""
    tree = ast.parse((common.REPO / "ford" / "output.py").read_text())
    found = []
    for n in ast.walk(tree):
        if isinstance(n, ast.For) and isinstance(n.iter, (ast.List, ast.Tuple)) and any(
                isinstance(c, ast.Call) and isinstance(c.func, ast.Attribute) and c.func.attr == "register"
                for c in ast.walk(n)):
            names = []
            for e in n.iter.elts:
                if not (isinstance(e, ast.Attribute) and isinstance(e.value, ast.Name) and e.value.id == "project"):
                    raise LookupError("ford/output.py: an element of the registration list is not `project.<list>`")
                names.append(e.attr)
            found.append(names)
    if len(found) != 1:
        raise LookupError(f"ford/output.py: expected one loop that registers entities with the graph manager, found {len(found)}")
    return found[0]


def project_lists(ford=None) -> list[dict]:
    """the lists of entities a `Project` holds (`self.x: List[<class of ford.sourceform>] = []` in
    `Project.__init__`, ast) -> [dict(name, cls (row of ifaceRules), registered)]"""
    names = class_names(ford)
    reg = registration_lists()
    tree = ast.parse((common.REPO / "ford" / "fortran_project.py").read_text())
    out = []
    for cls in tree.body:
        if isinstance(cls, ast.ClassDef) and cls.name == "Project":
            for fn in cls.body:
                if isinstance(fn, ast.FunctionDef) and fn.name == "__init__":
                    for n in ast.walk(fn):
                        if isinstance(n, ast.AnnAssign) and isinstance(n.target, ast.Attribute) \
                                and isinstance(n.annotation, ast.Subscript) \
                                and getattr(n.annotation.value, "id", "") == "List" \
                                and getattr(n.annotation.slice, "id", None) in names:
                            out.append(dict(name=n.target.attr, cls=names.index(n.annotation.slice.id),
                                            registered=n.target.attr in reg))
    if len(out) < 4:
        raise LookupError("the entity lists of ford.fortran_project.Project were not found")
    missing = [r for r in reg if r not in [o["name"] for o in out]]
    if missing:
        raise LookupError(f"ford/output.py registers project lists that Project.__init__ does not declare: {missing}")
    return out


def _b(x) -> str:
    return "true" if x else "false"


def generate():
    rows = extract()
    lines = [
        "/- GENERATED by translate/c13.py from ford/graphs.py (ProcNode.__init__ run on stub values) and",
        "   ford/sourceform.py (class hierarchy) - do not edit -/",
        "namespace Ford.C13Gen",
        "",
        "/-- one row per Python class a specific procedure / an implementation can be an instance of -/",
        "structure IfaceRule where",
        "  name : String",
        "  /-- `ford.graphs.is_proc` -/",
        "  isProc : Bool := false",
        "  isStr : Bool := false",
        "  /-- subclass of `FortranProcedure` -/",
        "  isProcedure : Bool := false",
        "  /-- the class carries the `module` marker of separate module procedures -/",
        "  declaresModule : Bool := false",
        "  /-- as `m.procedure` of a generic interface: linked when visible / when not visible -/",
        "  modproc : Bool := false",
        "  modprocHidden : Bool := false",
        "  /-- as `obj.procedure.module` of a module procedure interface -/",
        "  impl : Bool := false",
        "  implHidden : Bool := false",
        "",
        "def ifaceRules : List IfaceRule := [",
    ]
    for i, r in enumerate(rows):
        lines.append(
            f'  {{ name := "{r["name"]}", isProc := {_b(r["isProc"])}, isStr := {_b(r["isStr"])}, '
            f'isProcedure := {_b(r["isProcedure"])}, declaresModule := {_b(r["declaresModule"])}, '
            f'modproc := {_b(r["modproc"])}, modprocHidden := {_b(r["modprocHidden"])}, '
            f'impl := {_b(r["impl"])}, implHidden := {_b(r["implHidden"])} }}' + ("," if i + 1 < len(rows) else ""))
    lines += ["]", ""]
    crow, classes = extract_ctor()
    lines += [
        "/-- one row per (Python class of the Fortran object, relation slot its node constructor reads) -/",
        "structure CtorLink where",
        "  /-- row of `ifaceRules` of the class / its name -/",
        "  cls : Nat",
        "  name : String",
        "  /-- `Graph.Kind.code` of the node class the object gets -/",
        "  kind : Nat",
        "  /-- `Graph.Slot.code` -/",
        "  slot : Nat",
        "  /-- the Python attribute the target was offered through -/",
        "  via : String",
        "  /-- the target's node is stored on the new node -/",
        "  fwd : Bool",
        "  /-- the new node is stored on the target's node -/",
        "  inv : Bool",
        "",
        "def ctorLinks : List CtorLink := [",
    ]
    for i, r in enumerate(crow):
        lines.append(f'  {{ cls := {r["cls"]}, name := "{r["name"]}", kind := {r["kind"]}, slot := {r["slot"]}, '
                     f'via := "{r["via"]}", fwd := {_b(r["fwd"])}, inv := {_b(r["inv"])} }}'
                     + ("," if i + 1 < len(crow) else ""))
    lines += ["]", "",
              "/-- (row of `ifaceRules`, kind code) of every class whose objects get a node with links -/",
              "def ctorClasses : List (Nat × Nat) := [" + ", ".join(f"({c}, {k})" for c, k in classes) + "]", "",
              "/-- a list of entities of `ford.fortran_project.Project`: attribute, row of `ifaceRules` of the",
              "    declared element class, and whether `Documentation.__init__` (ford/output.py) hands its items",
              "    to `GraphManager.register` -/",
              "structure ProjList where",
              "  name : String",
              "  cls : Nat",
              "  registered : Bool",
              "",
              "def projectLists : List ProjList := ["]
    pl = project_lists()
    for i, r in enumerate(pl):
        lines.append(f'  {{ name := "{r["name"]}", cls := {r["cls"]}, registered := {_b(r["registered"])} }}'
                     + ("," if i + 1 < len(pl) else ""))
    lines += ["]", "", "end Ford.C13Gen", ""]
    common.write_if_changed(common.LEAN / "FordModel" / "Generated" / "C13.lean", "\n".join(lines))
    return rows


if __name__ == "__main__":
    for r in generate():
        print(r)
