"""C13 translator: the *decision table* of the interface-to-implementation links.

`ProcNode.__init__` (ford/graphs.py) links an interface node to

  * every specific procedure of a generic interface  (`m.procedure for m in obj.modprocs`), and
  * the implementation of a separate module procedure (`obj.procedure.module`)

under guards that are written as truthiness / `isinstance` / `getattr(.., "visible", True)` tests.
What these guards let through depends only on (slot, Python class of the value, visibility), so the
table is finite.  It is read off the working tree by *running the real constructor* on stub values
of every class defined in `ford.sourceform` (plus None / False / True / str) and regenerated as
lean/FordModel/Generated/C13.lean:

  ifaceRules : List IfaceRule     one row per class, in the order of `class_names()`
      isProc           `ford.graphs.is_proc` holds for instances (they get a procedure node)
      isStr            the value is a string (name of an external procedure)
      isProcedure      subclass of `FortranProcedure`
      declaresModule   the class (or a base) assigns `module` / `self.module`: its instances can be
                       marked as the implementation of a separate module procedure (ast)
      modproc / modprocHidden     linked as a specific procedure when visible / when not visible
      impl / implHidden           linked as `procedure.module` when visible / when not visible

The model (`Graph.targets`) consults the table, the theorems `iface_rule_*` of Props/C13.lean are
stated over it: an edit of the guards in the source changes a kernel-checked obligation.

A construct that cannot be found / probed raises (tie broken, never a pass).
"""
from __future__ import annotations

import ast
import types

from harness import common

PSEUDO = ["NoneType", "False", "True", "str"]
_PSEUDO_VALUES = {"NoneType": None, "False": False, "True": True, "str": "some_external_name"}


def _sf_classes(sf):
    return [c for _, c in sorted(vars(sf).items())
            if isinstance(c, type) and c.__module__ == sf.__name__ and issubclass(c, sf.FortranBase)]


def class_names(ford=None) -> list[str]:
    """row order of the generated table (the harness sends the row index of every entity)"""
    ford = ford or common.import_ford()
    import ford.sourceform as sf
    return PSEUDO + [c.__name__ for c in _sf_classes(sf)]


def class_index(names: list[str], obj) -> int:
    """row of the table that describes `obj` (exact class, else nearest base in the table)"""
    if obj is None:
        return names.index("NoneType")
    if obj is False or obj is True:
        return names.index(str(obj))
    if isinstance(obj, str):
        return names.index("str")
    for c in type(obj).__mro__:
        if c.__name__ in names[len(PSEUDO):]:
            return names.index(c.__name__)
    return len(names)   # no row: the model's default rule (nothing linked)


def _declares_module(sf) -> set[str]:
    """names of the classes of ford.sourceform whose body assigns `module = ..` or `self.module = ..`"""
    tree = ast.parse((common.REPO / "ford" / "sourceform.py").read_text())
    out = set()
    for cls in tree.body:
        if not isinstance(cls, ast.ClassDef):
            continue
        for n in ast.walk(cls):
            targets = []
            if isinstance(n, ast.Assign):
                targets = n.targets
            elif isinstance(n, (ast.AnnAssign, ast.AugAssign)):
                targets = [n.target]
            for t in targets:
                if isinstance(t, ast.Name) and t.id == "module" and n in cls.body:
                    out.add(cls.name)
                if isinstance(t, ast.Attribute) and t.attr == "module" and isinstance(t.value, ast.Name) \
                        and t.value.id == "self":
                    out.add(cls.name)
    if not out:
        raise LookupError("no class of ford/sourceform.py assigns `module`: the marker of separate module "
                          "procedures was not found")
    return out


class _Probe:
    """runs the real `ProcNode.__init__` on a stub interface whose slot holds one value"""

    def __init__(self, ford):
        import ford.graphs as G
        import ford.sourceform as sf

        self.G, self.sf = G, sf
        if not hasattr(G, "ProcNode") or not hasattr(G, "GraphData"):
            raise LookupError("ford.graphs.ProcNode / GraphData not found")

        class FakeNode:
            def __init__(self, target):
                self.target = target
                self.ident = f"fake-{id(self)}"
                self.called_by, self.interfaced_by, self.used_by = set(), set(), set()

        class FakeData(G.GraphData):
            """records which values the constructor asks a node for (no recursion into them)"""

            def get_procedure_node(self, procedure, hist=None):
                return FakeNode(procedure)

            def get_node(self, obj, hist=None):
                return FakeNode(obj)

            def get_module_node(self, mod):
                return FakeNode(mod)

        self.FakeData = FakeData
        stub = dict(get_dir=lambda self: "interface", get_url=lambda self: None, ident="probe", name="probe")
        self.Generic = type("ProbeGeneric", (sf.FortranInterface,), dict(stub))
        self.ModProcIface = type("ProbeModProcIface", (sf.FortranModuleProcedureInterface,), dict(stub))

    def linked(self, slot: str, value) -> bool:
        if slot == "modproc":
            obj = object.__new__(self.Generic)
            obj.modprocs = [types.SimpleNamespace(procedure=value, name="probe_specific")]
        else:
            obj = object.__new__(self.ModProcIface)
            obj.modprocs = []
            obj.procedure = types.SimpleNamespace(module=value, name="probe")
        gd = self.FakeData("..", False, False)
        node = self.G.ProcNode(obj, gd)
        if node.proctype != "interface":
            raise LookupError("a FortranInterface stub is not given proctype 'interface' by ProcNode")
        hits = [n for n in node.interfaces if n.target is value or (isinstance(value, str) and n.target == value)]
        for n in hits:   # both directions are written by adjacent statements
            if node not in n.interfaced_by:
                raise LookupError("ProcNode stores an interface link without its inverse")
        extra = [n for n in node.interfaces if n not in hits]
        if extra:
            raise LookupError(f"ProcNode links an interface to something that is in neither slot: {extra}")
        return bool(hits)


def extract(ford=None) -> list[dict]:
    ford = ford or common.import_ford()
    import ford.graphs as G
    import ford.sourceform as sf

    probe = _Probe(ford)
    declares = _declares_module(sf)
    rows = []
    for name in PSEUDO:
        v = _PSEUDO_VALUES[name]
        row = dict(name=name, isProc=False, isStr=isinstance(v, str), isProcedure=False, declaresModule=False)
        for slot in ("modproc", "impl"):
            try:
                row[slot] = probe.linked(slot, v)
            except LookupError:
                raise
            except Exception as e:
                raise LookupError(f"ProcNode.__init__ raises for {slot} = {v!r}: {type(e).__name__}: {e}")
            row[slot + "Hidden"] = row[slot]   # these values have no `visible`
        rows.append(row)
    for cls in _sf_classes(sf):
        row = dict(name=cls.__name__, isStr=False, isProc=bool(G.is_proc(object.__new__(cls))),
                   isProcedure=issubclass(cls, sf.FortranProcedure),
                   declaresModule=any(c.__name__ in declares for c in cls.__mro__))
        for slot in ("modproc", "impl"):
            res = {}
            for vis in (True, False, None):
                v = object.__new__(cls)
                if vis is not None:
                    try:
                        v.visible = vis
                    except AttributeError:
                        raise LookupError(f"`visible` of {cls.__name__} cannot be set")
                try:
                    res[vis] = probe.linked(slot, v)
                except LookupError:
                    raise
                except Exception as e:
                    raise LookupError(f"ProcNode.__init__ raises for {slot} = <{cls.__name__}>: {type(e).__name__}: {e}")
            default = bool(getattr(object.__new__(cls), "visible", True))
            if res[None] != res[default]:
                raise LookupError(f"the link to a {cls.__name__} without `visible` is not the one of "
                                  f"getattr(.., 'visible', True) = {default}")
            row[slot], row[slot + "Hidden"] = res[True], res[False]
        rows.append(row)
    names = class_names(ford)
    if [r["name"] for r in rows] != names:
        raise LookupError("row order of the table differs from class_names()")
    for need in ("FortranSubroutine", "FortranFunction", "FortranInterface", "FortranModuleProcedureInterface",
                 "FortranModuleProcedureImplementation", "FortranBoundProcedure"):
        if need not in names:
            raise LookupError(f"class {need} not found in ford.sourceform")
    return rows


def _b(x) -> str:
    return "true" if x else "false"


def generate():
    rows = extract()
    lines = [
        "/- GENERATED by translate/c13.py from ford/graphs.py (ProcNode.__init__ run on stub values) and",
        "   ford/sourceform.py (class hierarchy) - do not edit -/",
        "namespace Ford.C13Gen",
        "",
        "/-- one row per Python class a specific procedure / an implementation can be an instance of -/",
        "structure IfaceRule where",
        "  name : String",
        "  /-- `ford.graphs.is_proc` -/",
        "  isProc : Bool := false",
        "  isStr : Bool := false",
        "  /-- subclass of `FortranProcedure` -/",
        "  isProcedure : Bool := false",
        "  /-- the class carries the `module` marker of separate module procedures -/",
        "  declaresModule : Bool := false",
        "  /-- as `m.procedure` of a generic interface: linked when visible / when not visible -/",
        "  modproc : Bool := false",
        "  modprocHidden : Bool := false",
        "  /-- as `obj.procedure.module` of a module procedure interface -/",
        "  impl : Bool := false",
        "  implHidden : Bool := false",
        "",
        "def ifaceRules : List IfaceRule := [",
    ]
    for i, r in enumerate(rows):
        lines.append(
            f'  {{ name := "{r["name"]}", isProc := {_b(r["isProc"])}, isStr := {_b(r["isStr"])}, '
            f'isProcedure := {_b(r["isProcedure"])}, declaresModule := {_b(r["declaresModule"])}, '
            f'modproc := {_b(r["modproc"])}, modprocHidden := {_b(r["modprocHidden"])}, '
            f'impl := {_b(r["impl"])}, implHidden := {_b(r["implHidden"])} }}' + ("," if i + 1 < len(rows) else ""))
    lines += ["]", "", "end Ford.C13Gen", ""]
    common.write_if_changed(common.LEAN / "FordModel" / "Generated" / "C13.lean", "\n".join(lines))
    return rows


if __name__ == "__main__":
    for r in generate():
        print(r)
