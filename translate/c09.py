"""Translator for C09 -> lean/FordModel/Generated/C09.lean

Extracted on every run from the working tree (raises when a construct is not found,
which counts as 'tie broken'):

  ford/sourceform.py   class hierarchy (MRO), value of `self.obj` per class, the class
                       tuples of the isinstance tests in FortranBase.get_dir / get_url, the
                       three get_dir overrides, is_interface_procedure, anchor     (ast + import)
  ford/output.py       list-page conditions and entity_list_page_map of Documentation.__init__,
                       directories made by writeout, is_more_than_one              (ast + import)
  ford/fortran_project.py  the lists Project.allfiles chains                       (ast)
  ford/__init__.py     main's `len(project.files) < 1 -> exit` guard               (ast)
  ford/sourceform.py + fortran_project.py   shape of FortranBase.__str__ (link only when `visible`), the class of the
                       members of every project list that gets pages (annotations of Project.__init__), and
                       for directly constructed classes the rule for `self.visible` (with the keywords of
                       the constructor calls)                                           (ast)
  ford/templates/base.html, index.html   every href into lists/ or at project.X[0].get_url(),
                       with the conjunction of the enclosing {% if %} tests        (Jinja2 AST)

Round 5: facts that are *behaviour* are probed on the real callables instead of being read off their source text:
  the registered `relurl` filter (relpath against the page directory, resolved-href search, reuse key), `normalise_path`,
  the Jinja test `more_than_one`, PagetreePage.writeout (which copies appear where for an index / a non-index page),
  which Markdown conversions of a real `ford.main` run start from a reset converter; PARA_CAPTURE_RE is compared by parse
  tree; the list-page conditions of Documentation.__init__ are read by a small symbolic walk (local names, one-line
  helpers, a loop or comprehension over a literal (condition, class) table).
"""
from __future__ import annotations

import ast
import re
from pathlib import Path

from harness import common


# ----------------------------------------------------------------- Lean printing

def lstr(s: str) -> str:
    return "[" + ", ".join("Char.ofNat %d" % ord(c) for c in s) + "]"


def llist(items) -> str:
    return "[" + ", ".join(items) + "]"


def lcond(c) -> str:
    k = c[0]
    if k == "tt":
        return "Cond.tt"
    if k in ("gt", "eq"):
        return f"(Cond.{k} {lnexpr(c[1])} {c[2]})"
    if k == "opt":
        return f"(Cond.opt {lstr(c[1])})"
    if k in ("and", "or"):
        return f"(Cond.{k} {lcond(c[1])} {lcond(c[2])})"
    if k == "not":
        return f"(Cond.not {lcond(c[1])})"
    raise ValueError(c)


def lnexpr(e) -> str:
    k = e[0]
    if k == "len":
        return f"(NExpr.len {lstr(e[1])})"
    if k == "lit":
        return f"(NExpr.lit {e[1]})"
    if k == "add":
        return f"(NExpr.add {lnexpr(e[1])} {lnexpr(e[2])})"
    raise ValueError(e)


def conj(cs):
    cs = list(cs)
    if not cs:
        return ("tt",)
    out = cs[0]
    for c in cs[1:]:
        out = ("and", out, c)
    return out


# ----------------------------------------------------------------- python conditions

def py_nexpr(n):
    if isinstance(n, ast.Call) and ast.unparse(n.func) == "len" and len(n.args) == 1:
        a = n.args[0]
        if isinstance(a, ast.Attribute) and ast.unparse(a.value) in ("project", "self.project"):
            return ("len", a.attr)
    if isinstance(n, ast.BinOp) and isinstance(n.op, ast.Add):
        return ("add", py_nexpr(n.left), py_nexpr(n.right))
    if isinstance(n, ast.Constant) and isinstance(n.value, int):
        return ("lit", n.value)
    raise LookupError("unsupported numeric expression: " + ast.unparse(n))


def py_cond(n):
    if isinstance(n, ast.Call) and ast.unparse(n.func) == "bool" and len(n.args) == 1 and not n.keywords:
        return py_cond(n.args[0])      # `bool(x)` is the test `if x:` performs
    if isinstance(n, ast.Constant) and isinstance(n.value, bool):
        return ("tt",) if n.value else ("not", ("tt",))
    if isinstance(n, ast.BoolOp):
        op = "and" if isinstance(n.op, ast.And) else "or"
        out = py_cond(n.values[0])
        for v in n.values[1:]:
            out = (op, out, py_cond(v))
        return out
    if isinstance(n, ast.UnaryOp) and isinstance(n.op, ast.Not):
        return ("not", py_cond(n.operand))
    if isinstance(n, ast.Compare) and len(n.ops) == 1 and isinstance(n.comparators[0], ast.Constant):
        e = py_nexpr(n.left)
        k = n.comparators[0].value
        op = n.ops[0]
        if isinstance(op, ast.Gt):
            return ("gt", e, k)
        if isinstance(op, ast.GtE) and k >= 1:
            return ("gt", e, k - 1)
        if isinstance(op, ast.Lt) and k >= 1:
            return ("not", ("gt", e, k - 1))
        if isinstance(op, ast.LtE):
            return ("not", ("gt", e, k))
        if isinstance(op, ast.Eq):
            return ("eq", e, k)
        if isinstance(op, ast.NotEq):
            return ("not", ("eq", e, k))
    if isinstance(n, ast.Attribute):
        base = ast.unparse(n.value)
        if base in ("settings", "self.settings"):
            return ("opt", n.attr)
        if base in ("project", "self.project"):
            return ("gt", ("len", n.attr), 0)
    raise LookupError("unsupported condition: " + ast.unparse(n))


def _func(tree, cls, name):
    for n in tree.body:
        if cls is None and isinstance(n, ast.FunctionDef) and n.name == name:
            return n
        if isinstance(n, ast.ClassDef) and n.name == cls:
            for f in n.body:
                if isinstance(f, ast.FunctionDef) and f.name == name:
                    return f
    raise LookupError(f"{cls}.{name} not found")


# ----------------------------------------------------------------- which list pages are made, and when

class _Subst(ast.NodeTransformer):
    """replace loaded names by the expressions they are bound to"""

    def __init__(self, env):
        self.env = env

    def visit_Name(self, n):
        if isinstance(n.ctx, ast.Load) and n.id in self.env:
            return self.env[n.id]
        return n


def _subst(node, env):
    import copy
    return _Subst(env).visit(copy.deepcopy(node)) if env else node


def _bind(target, value, env):
    """bind the names of an assignment / loop target to (already substituted) value expressions"""
    if isinstance(target, ast.Name):
        env[target.id] = value
        return True
    if isinstance(target, (ast.Tuple, ast.List)) and isinstance(value, (ast.Tuple, ast.List)) and len(target.elts) == len(value.elts):
        return all(_bind(t, v, env) for t, v in zip(target.elts, value.elts))
    return False


def _inline_helpers(node, tree, depth=0):
    """`self.helper(args)` / `helper(args)` whose body is a single `return <expr>`: replaced by that expression with
    the parameters substituted (so that a condition moved into a small helper is still read)."""
    funcs = {}
    for n in tree.body:
        if isinstance(n, ast.FunctionDef):
            funcs[("", n.name)] = n
        if isinstance(n, ast.ClassDef) and n.name == "Documentation":
            for f in n.body:
                if isinstance(f, ast.FunctionDef):
                    funcs[("self", f.name)] = f

    class T(ast.NodeTransformer):
        def visit_Call(self, c):
            self.generic_visit(c)
            key = None
            if isinstance(c.func, ast.Name):
                key = ("", c.func.id)
            elif isinstance(c.func, ast.Attribute) and isinstance(c.func.value, ast.Name) and c.func.value.id == "self":
                key = ("self", c.func.attr)
            f = funcs.get(key)
            if f is None or c.keywords or depth > 3:
                return c
            body = [b for b in f.body if not (isinstance(b, ast.Expr) and isinstance(b.value, ast.Constant))]
            params = [a.arg for a in f.args.args]
            if key[0] == "self" or any(isinstance(d, ast.Name) and d.id in ("staticmethod",) for d in f.decorator_list):
                params = [a for a in params if a != "self"]
            if len(body) != 1 or not isinstance(body[0], ast.Return) or body[0].value is None or len(params) != len(c.args) \
                    or f.args.vararg or f.args.kwarg or f.args.kwonlyargs:
                return c
            return _inline_helpers(_subst(body[0].value, dict(zip(params, c.args))), tree, depth + 1)

    import copy
    return T().visit(copy.deepcopy(node))


def _is_lists(n):
    return ast.unparse(n) == "self.lists"


def _list_page_conds(tree, init, fo):
    """[(out_page, condition, class name)] in the order in which the pages are appended."""
    out = []
    sites = []

    def cond_of(test, env):
        return py_cond(_inline_helpers(_subst(test, env), tree))

    def page_of(call, env, conds, site):
        call = _subst(call, env)
        if not (isinstance(call, ast.Call) and isinstance(call.func, ast.Name)):
            raise LookupError("self.lists gets something that is not `<ListPage class>(...)`: " + ast.unparse(call))
        cls = call.func.id
        page = getattr(getattr(fo, cls, None), "out_page", None)
        if not isinstance(page, str):
            raise LookupError(f"{cls}.out_page is not a string")
        out.append((page, conj(conds), cls))
        sites.append(site)

    def elements(it, env):
        it = _subst(it, env)
        if isinstance(it, ast.Call) and ast.unparse(it.func) in ("list", "tuple", "iter") and len(it.args) == 1:
            it = it.args[0]
        if isinstance(it, (ast.List, ast.Tuple)):
            return it.elts
        return None

    def comprehension(comp, env, conds, site):
        """[elt for target in table if test] -> one page per table entry"""
        if len(comp.generators) != 1 or comp.generators[0].is_async:
            raise LookupError("self.lists: unsupported comprehension " + ast.unparse(comp))
        g = comp.generators[0]
        els = elements(g.iter, env)
        if els is None:
            raise LookupError("self.lists: comprehension over something that is not a literal table: " + ast.unparse(g.iter))
        for el in els:
            env2 = dict(env)
            if not _bind(g.target, el, env2):
                raise LookupError("self.lists: cannot bind " + ast.unparse(g.target) + " to " + ast.unparse(el))
            page_of(comp.elt, env2, conds + [cond_of(t, env2) for t in g.ifs], site)

    def visit(stmts, env, conds):
        for st in stmts:
            if isinstance(st, (ast.Assign, ast.AnnAssign, ast.AugAssign)):
                tgt = st.targets[0] if isinstance(st, ast.Assign) else st.target
                if _is_lists(tgt):
                    v = st.value
                    if isinstance(st, ast.AugAssign) or (v is not None and not (isinstance(v, ast.List) and not v.elts)):
                        if isinstance(v, (ast.ListComp, ast.GeneratorExp)):
                            comprehension(v, env, conds, st)
                        elif isinstance(v, ast.List):
                            for e in v.elts:
                                page_of(e, env, conds, st)
                        else:
                            raise LookupError("self.lists: unsupported assignment " + ast.unparse(st))
                    continue
                if st.value is not None and not isinstance(st, ast.AugAssign):
                    _bind(tgt, _subst(st.value, env), env)
                continue
            if isinstance(st, ast.If):
                c = cond_of(st.test, env) if _touches_lists(st) else None
                visit(st.body, dict(env), conds + ([c] if c is not None else []))
                visit(st.orelse, dict(env), conds + ([("not", c)] if c is not None else []))
                continue
            if isinstance(st, ast.For):
                if not _touches_lists(st):
                    continue
                els = elements(st.iter, env)
                if els is None or st.orelse:
                    raise LookupError("self.lists is filled in a loop over something that is not a literal table: " + ast.unparse(st.iter))
                for el in els:
                    env2 = dict(env)
                    if not _bind(st.target, el, env2):
                        raise LookupError("self.lists: cannot bind " + ast.unparse(st.target) + " to " + ast.unparse(el))
                    visit(st.body, env2, conds)
                continue
            if isinstance(st, ast.Try):
                visit(st.body, env, conds)
                visit(st.orelse, env, conds)
                visit(st.finalbody, env, conds)
                for h in st.handlers:
                    if _touches_lists(h):
                        raise LookupError("self.lists is changed in an exception handler")
                continue
            if isinstance(st, ast.With):
                visit(st.body, env, conds)
                continue
            if isinstance(st, ast.Expr) and isinstance(st.value, ast.Call) and isinstance(st.value.func, ast.Attribute) \
                    and _is_lists(st.value.func.value):
                c = st.value
                if c.func.attr == "append" and len(c.args) == 1:
                    page_of(c.args[0], env, conds, st)
                elif c.func.attr == "extend" and len(c.args) == 1 and isinstance(c.args[0], (ast.ListComp, ast.GeneratorExp)):
                    comprehension(c.args[0], env, conds, st)
                elif c.func.attr == "extend" and len(c.args) == 1 and isinstance(c.args[0], (ast.List, ast.Tuple)):
                    for e in c.args[0].elts:
                        page_of(e, env, conds, st)
                else:
                    raise LookupError("self.lists: unsupported call " + ast.unparse(c))
                continue
            if _touches_lists(st) and not isinstance(st, (ast.FunctionDef, ast.Return)):
                # any other statement that mentions self.lists inside Documentation.__init__ must only read it
                for n in ast.walk(st):
                    if isinstance(n, ast.Attribute) and _is_lists(n) and isinstance(n.ctx, ast.Store):
                        raise LookupError("self.lists: unsupported statement " + ast.unparse(st)[:80])
                    if isinstance(n, ast.Call) and isinstance(n.func, ast.Attribute) and _is_lists(n.func.value) \
                            and n.func.attr in ("append", "extend", "insert", "remove", "pop", "clear"):
                        raise LookupError("self.lists: unsupported statement " + ast.unparse(st)[:80])

    def _touches_lists(node):
        return any(isinstance(n, ast.Attribute) and _is_lists(n) for n in ast.walk(node))

    visit(init.body, {}, [])
    # nothing else in the class may change the list
    n_mut = 0
    for n in ast.walk(init):
        if isinstance(n, ast.Call) and isinstance(n.func, ast.Attribute) and _is_lists(n.func.value) \
                and n.func.attr in ("append", "extend", "insert"):
            n_mut += 1
        if isinstance(n, (ast.Assign, ast.AnnAssign, ast.AugAssign)):
            tgt = n.targets[0] if isinstance(n, ast.Assign) else n.target
            v = n.value
            if _is_lists(tgt) and not (isinstance(v, ast.List) and not v.elts and not isinstance(n, ast.AugAssign)):
                n_mut += 1
    if n_mut != len({id(x) for x in sites}) or not out:
        raise LookupError(f"Documentation.__init__: {n_mut} statements fill self.lists, {len({id(x) for x in sites})} of them understood")
    for c in tree.body:
        if isinstance(c, ast.ClassDef) and c.name == "Documentation":
            for f in c.body:
                if isinstance(f, ast.FunctionDef) and f.name != "__init__":
                    for n in ast.walk(f):
                        if isinstance(n, ast.Call) and isinstance(n.func, ast.Attribute) and _is_lists(n.func.value) \
                                and n.func.attr in ("append", "extend", "insert", "remove", "pop", "clear"):
                            raise LookupError(f"Documentation.{f.name} changes self.lists")
    return out


# ----------------------------------------------------------------- output.py

def extract_output(repo: Path):
    import ford.output as fo

    tree = ast.parse((repo / "ford" / "output.py").read_text())
    init = _func(tree, "Documentation", "__init__")
    # entity_list_page_map
    page_map = []
    found_map = False
    for n in ast.walk(init):
        if isinstance(n, ast.AnnAssign) and ast.unparse(n.target) == "entity_list_page_map":
            found_map = True
            for el in n.value.elts:
                lst, cls = el.elts
                if not (isinstance(lst, ast.Attribute) and ast.unparse(lst.value) == "project"):
                    raise LookupError("entity_list_page_map entry: " + ast.unparse(el))
                page_map.append((lst.attr, ("tt",), ast.unparse(cls)))
        if isinstance(n, ast.If):
            for b in n.body:
                if isinstance(b, ast.Expr) and isinstance(b.value, ast.Call) and ast.unparse(b.value.func) == "entity_list_page_map.append":
                    lst, cls = b.value.args[0].elts
                    page_map.append((lst.attr, py_cond(n.test), ast.unparse(cls)))
    if not found_map or len(page_map) < 5:
        raise LookupError("entity_list_page_map not found in Documentation.__init__")
    n_map_appends = sum(1 for n in ast.walk(init) if isinstance(n, ast.Call) and ast.unparse(n.func) == "entity_list_page_map.append")
    if n_map_appends != sum(1 for p in page_map if p[1] != ("tt",)):
        raise LookupError("entity_list_page_map.append outside a recognised `if`")
    # list pages: every place where Documentation.__init__ puts a page object into `self.lists`, with the condition
    # under which it does so (see `_list_page_conds`: plain `if`s, a loop / comprehension over a table of
    # (condition, class) pairs, conditions held in local names or in one-line helper functions)
    list_conds = _list_page_conds(tree, init, fo)
    # every list page lives in lists/
    lp = _func(tree, "ListPage", "outfile")
    if 'self.out_dir / "lists" / self.out_page' not in ast.unparse(lp).replace("'", '"'):
        raise LookupError("ListPage.outfile is not out_dir / 'lists' / out_page")
    dp = _func(tree, "DocPage", "outfile")
    if "self.out_dir / self.obj.get_dir() / self.object_page" not in ast.unparse(dp):
        raise LookupError("DocPage.outfile is not out_dir / get_dir() / object_page")
    op = _func(tree, "DocPage", "object_page")
    if "self.obj.ident + '.html'" not in ast.unparse(op):
        raise LookupError("DocPage.object_page is not ident + '.html'")
    # writeout directories
    wo = _func(tree, "Documentation", "writeout")
    out_dirs = None
    for n in ast.walk(wo):
        if isinstance(n, ast.For) and isinstance(n.iter, ast.List) and "mkdir" in ast.unparse(n.body[0]):
            out_dirs = [e.value for e in n.iter.elts]
            break
    if not out_dirs:
        raise LookupError("directory list of Documentation.writeout not found")
    # more_than_one
    # the `more_than_one` test of the templates (it is applied to `x|length`): probed, not read
    mt = fo.env.tests.get("more_than_one")
    if mt is None or [bool(mt(k)) for k in range(6)] != [k > 1 for k in range(6)]:
        raise LookupError("the Jinja test `more_than_one` is not `n > 1`")
    # BasePage.project_url
    bp = _func(tree, "BasePage", "__init__")
    if "os.path.relpath(proj.settings.project_url, self.outfile.parent)" not in ast.unparse(bp):
        raise LookupError("BasePage.project_url is not relpath(project_url, outfile.parent)")
    return page_map, list_conds, out_dirs


def extract_project(repo: Path):
    tree = ast.parse((repo / "ford" / "fortran_project.py").read_text())
    f = _func(tree, "Project", "allfiles")
    parts = []
    for n in f.body:
        if isinstance(n, ast.For) and isinstance(n.iter, ast.Attribute) and ast.unparse(n.iter.value) == "self":
            parts.append(n.iter.attr)
    if not parts:
        raise LookupError("Project.allfiles: chained lists not found")
    tree = ast.parse((repo / "ford" / "__init__.py").read_text())
    m = _func(tree, None, "main")
    pre = None
    for n in m.body:
        if isinstance(n, ast.If) and "sys.exit" in ast.unparse(n) and "project.files" in ast.unparse(n.test):
            pre = ("not", py_cond(n.test))
    if pre is None:
        raise LookupError("main: `if len(project.files) < 1: exit` not found")
    # simplify not(not x)
    if pre[1][0] == "not":
        pre = pre[1][1]
    return parts, pre


# ----------------------------------------------------------------- sourceform.py

OVERRIDE_FORMS = [
    (re.compile(r"^return '(\w+)'$"), "const"),
    (re.compile(r"^if self\.is_interface_procedure:\n    return '(\w+)'\nreturn super\(\)\.get_dir\(\)$"), "ifIfaceProc"),
    (re.compile(r"^if self\.name:\n    return super\(\)\.get_dir\(\)\nreturn None$"), "ifNamed"),
]


def _isinstance_tuple(call, who):
    if not (isinstance(call, ast.Call) and ast.unparse(call.func) == "isinstance" and ast.unparse(call.args[0]) == who
            and isinstance(call.args[1], ast.Tuple)):
        raise LookupError("expected isinstance(%s, (...)): %s" % (who, ast.unparse(call)[:80]))
    return [ast.unparse(e) for e in call.args[1].elts]


def extract_sourceform(repo: Path):
    import ford.sourceform as sf

    tree = ast.parse((repo / "ford" / "sourceform.py").read_text())
    classes = {n.name: n for n in tree.body if isinstance(n, ast.ClassDef)}
    # get_dir of FortranBase
    gd = _func(tree, "FortranBase", "get_dir")
    body = [s for s in gd.body if not (isinstance(s, ast.Expr) and isinstance(s.value, ast.Constant))]
    if not (len(body) == 2 and isinstance(body[0], ast.If) and ast.unparse(body[0].body[0]) == "return self.obj"
            and ast.unparse(body[1]) == "return None" and not body[0].orelse):
        raise LookupError("FortranBase.get_dir has an unexpected shape")
    test = body[0].test
    if not (isinstance(test, ast.BoolOp) and isinstance(test.op, ast.Or) and len(test.values) == 2):
        raise LookupError("FortranBase.get_dir: expected `isinstance(self, A) or (isinstance(self, B) and isinstance(self.parent, C))`")
    dir_self = _isinstance_tuple(test.values[0], "self")
    second = test.values[1]
    if not (isinstance(second, ast.BoolOp) and isinstance(second.op, ast.And) and len(second.values) == 2):
        raise LookupError("FortranBase.get_dir: second disjunct is not a conjunction of two isinstance tests")
    dir_child = _isinstance_tuple(second.values[0], "self")
    dir_parent = _isinstance_tuple(second.values[1], "self.parent")
    # get_url
    gu = _func(tree, "FortranBase", "get_url")
    body = [s for s in gu.body if not (isinstance(s, ast.Expr) and isinstance(s.value, ast.Constant))]
    txt = [ast.unparse(s) for s in body]
    if not (len(body) == 4 and txt[0].startswith("if hasattr(self, 'external_url'):")
            and txt[1] == "if (loc := self.get_dir()):\n    return f'{loc}/{self.ident}.html'"
            and txt[3] == "return None"):
        raise LookupError("FortranBase.get_url has an unexpected shape")
    third = body[2]
    if not (isinstance(third.test, ast.BoolOp) and isinstance(third.test.op, ast.And) and len(third.test.values) == 2
            and ast.unparse(third.test.values[1]) == "self.parent is not None"):
        raise LookupError("FortranBase.get_url: anchor branch test has an unexpected shape")
    anchor_classes = _isinstance_tuple(third.test.values[0], "self")
    inner = "\n".join(ast.unparse(s) for s in third.body)
    want = ("if (parent_url := self.parent.get_url()):\n    if '#' in parent_url:\n        parent_url, _ = parent_url.split('#')\n"
            "    return f'{parent_url}#{self.anchor}'\nreturn None")
    if inner != want:
        raise LookupError("FortranBase.get_url: anchor branch body changed")
    an = _func(tree, "FortranBase", "anchor")
    if ast.unparse(an.body[-1]) != "return f'{self.obj}-{quote(self.ident)}'":
        raise LookupError("FortranBase.anchor changed")
    # overrides
    overrides = []
    for name, c in classes.items():
        if name == "FortranBase":
            continue
        for f in c.body:
            if isinstance(f, ast.FunctionDef) and f.name == "get_dir":
                stmts = [s for s in f.body if not (isinstance(s, ast.Expr) and isinstance(s.value, ast.Constant))]
                text = "\n".join(ast.unparse(s) for s in stmts)
                for rx, kind in OVERRIDE_FORMS:
                    m = rx.match(text)
                    if m:
                        overrides.append((name, kind, m.group(1) if m.groups() else None))
                        break
                else:
                    raise LookupError(f"{name}.get_dir has an unknown shape: {text!r}")
    iip = _func(tree, "FortranProcedure", "is_interface_procedure")
    m = re.match(r"^return isinstance\(self\.parent, (\w+)\) and \(?not self\.parent\.generic\)?$", ast.unparse(iip.body[-1]))
    if not m:
        raise LookupError("FortranProcedure.is_interface_procedure changed")
    iface_class = m.group(1)
    # FortranProcedure.ident for interface procedures
    idp = _func(tree, "FortranProcedure", "ident")
    if "namelist.get_name(self.parent)" not in ast.unparse(idp):
        raise LookupError("FortranProcedure.ident changed")
    # class hierarchy from the imported module
    mro = []
    for name in classes:
        cls = getattr(sf, name, None)
        if isinstance(cls, type) and issubclass(cls, sf.FortranBase):
            mro.append((name, [c.__name__ for c in cls.__mro__ if c is not object]))
    if len(mro) < 20:
        raise LookupError("class hierarchy of ford.sourceform not found")
    # value of self.obj per class, from the source
    base_init = _func(tree, "FortranBase", "__init__")
    default_rule = any(ast.unparse(s) == "self.obj = type(self).__name__[7:].lower()" for s in base_init.body)
    proc_names = None
    for s in base_init.body:
        if isinstance(s, ast.If) and ast.unparse(s.test).startswith("self.obj in ") and ast.unparse(s.body[0]) == "self.obj = 'proc'":
            proc_names = [e.value for e in s.test.comparators[0].elts]
    if not default_rule or proc_names is None:
        raise LookupError("FortranBase.__init__: rule for self.obj not found")

    def own_obj(cname):
        c = classes.get(cname)
        if c is None:
            return None
        for s in c.body:
            if isinstance(s, ast.Assign) and ast.unparse(s.targets[0]) == "obj" and isinstance(s.value, ast.Constant):
                return s.value.value
            if isinstance(s, ast.FunctionDef) and s.name == "__init__":
                for t in s.body:
                    if isinstance(t, ast.Assign) and ast.unparse(t.targets[0]) == "self.obj":
                        if isinstance(t.value, ast.Constant):
                            return t.value.value
                        if ast.unparse(t.value) == "type(self).__name__[7:].lower()":
                            return ("rule",)
        return None

    obj_of = []
    for name, chain in mro:
        val = None
        for cn in chain:
            v = own_obj(cn)
            if v is not None:
                val = v
                break
        if val is None or name.startswith("External"):
            continue  # External* entities carry external_url, get_url never reaches get_dir
        cls = getattr(sf, name)
        if cls._initialize is sf.FortranBase._initialize and cls.__init__ in (sf.FortranBase.__init__, sf.FortranContainer.__init__):
            continue  # abstract: cannot be instantiated (`_initialize` raises NotImplementedError)
        if val == ("rule",):
            val = name[7:].lower()
            if cn == "FortranBase" and val in proc_names:
                val = "proc"
        obj_of.append((name, val))
    return dict(mro=mro, obj_of=obj_of, dir_self=dir_self, dir_child=dir_child, dir_parent=dir_parent,
                anchor_classes=anchor_classes, overrides=overrides, iface_class=iface_class)


# ----------------------------------------------------------------- `__str__` links vs `visible`

STR_WANT = ("if (url := self.full_url) and getattr(self, 'visible', {default}):\n"
            "    name = self.name or '<em>unnamed</em>'\n"
            "    return f\"<a href='{{url}}'>{{name}}</a>\"\n"
            "return self.name or ''")


def _settings_opt(n):
    """`settings.X` / `self.settings.X` -> X"""
    if isinstance(n, ast.Attribute) and ast.unparse(n.value) in ("settings", "self.settings"):
        return n.attr
    return None


def extract_visible(repo: Path, page_map, allfiles_parts):
    """FortranBase.__str__ (shape + default of the `visible` lookup), the class of the members of every
    project list that gets pages, and - for the classes among them that are built by their own
    constructor - the condition under which `self.visible` is true after `__init__`."""
    import ford.sourceform as sf

    tree = ast.parse((repo / "ford" / "sourceform.py").read_text())
    classes = {n.name: n for n in tree.body if isinstance(n, ast.ClassDef)}
    st = _func(tree, "FortranBase", "__str__")
    body = "\n".join(ast.unparse(s) for s in st.body if not (isinstance(s, ast.Expr) and isinstance(s.value, ast.Constant)))
    default = None
    for dv in (True, False):
        if body == STR_WANT.format(default=dv):
            default = dv
    if default is None:
        raise LookupError("FortranBase.__str__ has an unexpected shape: " + body[:200])
    for name, c in classes.items():
        cls = getattr(sf, name, None)
        if name != "FortranBase" and isinstance(cls, type) and issubclass(cls, sf.FortranBase) \
                and not getattr(cls, "IS_SPOOF", False) and not name.startswith("External"):
            if any(isinstance(f, ast.FunctionDef) and f.name == "__str__" for f in c.body):
                raise LookupError(f"{name} overrides __str__")
    # members of the project lists
    ptree = ast.parse((repo / "ford" / "fortran_project.py").read_text())
    pinit = _func(ptree, "Project", "__init__")
    ann = {}
    for n in ast.walk(pinit):
        if isinstance(n, ast.AnnAssign) and isinstance(n.target, ast.Attribute) and ast.unparse(n.target.value) == "self":
            a = n.annotation
            if isinstance(a, ast.Subscript) and ast.unparse(a.value) == "List" and isinstance(a.slice, ast.Name):
                ann[n.target.attr] = a.slice.id
    wanted = []
    for lst, _c, _cls in page_map:
        for l in (allfiles_parts if lst == "allfiles" else [lst]):
            if l not in wanted:
                wanted.append(l)
    list_class = []
    for l in wanted:
        if l not in ann or ann[l] not in classes:
            raise LookupError(f"Project.__init__: no `self.{l}: List[<class>]` annotation")
        list_class.append((l, ann[l]))
    # constructor calls in fortran_project.py (keywords handed to the constructors)
    calls = {}
    for n in ast.walk(ptree):
        if isinstance(n, ast.Call) and isinstance(n.func, ast.Name) and n.func.id in classes:
            calls.setdefault(n.func.id, []).append(n)
    vis_init = []
    for cname in dict.fromkeys(c for _l, c in list_class):
        cls = getattr(sf, cname)
        owner = next((k for k in cls.__mro__ if "__init__" in vars(k)), None)
        if owner is None or owner.__name__ not in classes:
            raise LookupError(f"{cname}: constructor not found")
        init = _func(tree, owner.__name__, "__init__")
        assigns = [s for s in ast.walk(init) if isinstance(s, ast.Assign) and any(ast.unparse(t) == "self.visible" for t in s.targets)]
        if owner in (sf.FortranBase, sf.FortranContainer) or (not assigns and "super().__init__(" in ast.unparse(init)):
            # FortranBase.__init__ starts with visible = False; parsing / correlation decide later (not modelled)
            if not any(ast.unparse(s) == "self.visible = False" for s in _func(tree, "FortranBase", "__init__").body):
                raise LookupError("FortranBase.__init__ no longer starts with `self.visible = False`")
            continue
        # (a constructor that sets the flag itself: the rule is confirmed at run time on every instance,
        #  harness/c09.py compares the attribute of the real objects with the rule's value)
        if any(isinstance(s, (ast.AugAssign, ast.AnnAssign)) and ast.unparse(s.target) == "self.visible" for s in ast.walk(init)):
            raise LookupError(f"{owner.__name__}.__init__: unsupported assignment to self.visible")
        if not assigns:
            vis_init.append((cname, ("tt",) if default else ("not", ("tt",)), "attribute never set: default of getattr"))
            continue
        if len(assigns) != 1 or assigns[0] not in init.body:
            raise LookupError(f"{owner.__name__}.__init__: self.visible is assigned conditionally or more than once")
        v = assigns[0].value
        if isinstance(v, ast.Constant) and isinstance(v.value, bool):
            cond = ("tt",) if v.value else ("not", ("tt",))
        elif _settings_opt(v):
            cond = ("opt", _settings_opt(v))
        elif (isinstance(v, ast.Call) and ast.unparse(v.func) == "kwargs.get" and len(v.args) == 2
              and all(isinstance(a, ast.Constant) for a in v.args) and isinstance(v.args[1].value, bool)):
            key, dflt = v.args[0].value, v.args[1].value
            sites = calls.get(cname, [])
            if not sites:
                raise LookupError(f"no constructor call of {cname} in fortran_project.py")
            given = [next((k.value for k in c.keywords if k.arg == key), None) for c in sites]
            if any(k.arg is None for c in sites for k in c.keywords):
                raise LookupError(f"{cname}(**...) call: keywords not static")
            if all(g is None for g in given):
                cond = ("tt",) if dflt else ("not", ("tt",))
            elif all(g is not None and _settings_opt(g) for g in given) and len({_settings_opt(g) for g in given}) == 1:
                cond = ("opt", _settings_opt(given[0]))
            elif all(isinstance(g, ast.Constant) and isinstance(g.value, bool) for g in given) and len({g.value for g in given}) == 1:
                cond = ("tt",) if given[0].value else ("not", ("tt",))
            else:
                raise LookupError(f"{cname}: keyword {key!r} of the constructor calls has an unsupported value")
        else:
            raise LookupError(f"{owner.__name__}.__init__: unsupported value of self.visible: {ast.unparse(v)}")
        vis_init.append((cname, cond, ast.unparse(assigns[0])))
    return dict(vis_init=vis_init, list_class=list_class, default_visible=default)


# ----------------------------------------------------------------- templates (Jinja2 AST)

def j_nexpr(n):
    from jinja2 import nodes as N

    if isinstance(n, N.Filter) and n.name == "length" and isinstance(n.node, N.Getattr) and isinstance(n.node.node, N.Name) \
            and n.node.node.name == "project":
        return ("len", n.node.attr)
    if isinstance(n, N.Add):
        return ("add", j_nexpr(n.left), j_nexpr(n.right))
    if isinstance(n, N.Const) and isinstance(n.value, int):
        return ("lit", n.value)
    raise LookupError("numeric")


def j_cond(n):
    """Jinja test expression -> Cond; anything not understood becomes an uninterpreted
    boolean (the theorems quantify over all its values, which is sound)."""
    from jinja2 import nodes as N

    try:
        if isinstance(n, N.And):
            return ("and", j_cond(n.left), j_cond(n.right))
        if isinstance(n, N.Or):
            return ("or", j_cond(n.left), j_cond(n.right))
        if isinstance(n, N.Not):
            return ("not", j_cond(n.node))
        if isinstance(n, N.Name):
            return ("opt", n.name)
        if isinstance(n, N.Getattr) and isinstance(n.node, N.Name) and n.node.name == "project":
            return ("gt", ("len", n.attr), 0)
        if isinstance(n, N.Test) and n.name == "more_than_one" and not n.args:
            return ("gt", j_nexpr(n.node), 1)
        if isinstance(n, N.Compare) and len(n.ops) == 1 and isinstance(n.ops[0].expr, N.Const):
            e = j_nexpr(n.expr)
            k = n.ops[0].expr.value
            op = n.ops[0].op
            if op == "eq":
                return ("eq", e, k)
            if op == "gt":
                return ("gt", e, k)
            if op == "gteq" and k >= 1:
                return ("gt", e, k - 1)
            if op == "ne":
                return ("not", ("eq", e, k))
    except LookupError:
        pass
    return ("opt", "?" + re.sub(r"\s+", " ", repr(n))[:60])


PU = "\x00PU\x00"


def extract_templates(repo: Path):
    import ford.output as fo
    from jinja2 import nodes as N

    tdir = repo / "ford" / "templates"
    entries = []

    def handle_output(tpl, node, conds):
        text = ""
        for ch in node.nodes:
            if isinstance(ch, N.TemplateData):
                text += ch.data
            elif isinstance(ch, N.Name) and ch.name == "project_url":
                text += PU
            elif (isinstance(ch, N.Call) and isinstance(ch.node, N.Getattr) and ch.node.attr == "get_url"
                  and isinstance(ch.node.node, N.Getitem) and isinstance(ch.node.node.arg, N.Const) and ch.node.node.arg.value == 0
                  and isinstance(ch.node.node.node, N.Getattr) and isinstance(ch.node.node.node.node, N.Name)
                  and ch.node.node.node.node.name == "project"):
                text += "\x00FIRST:%s\x00" % ch.node.node.node.attr
            else:
                text += "\x00E\x00"
        for m in re.finditer(r'href="([^"]*)"[^>]*>(.*?)</a>', text, re.S):
            href, label = m.group(1), m.group(2)
            label = re.sub(r"<[^>]*>", "", label).replace("\x00E\x00", "").strip()
            label = re.sub(r"\s+", " ", label)
            if href.startswith(PU + "/lists/"):
                page = href[len(PU + "/lists/"):]
                if "\x00" in page:
                    raise LookupError(f"{tpl}: computed list page name in {href!r}")
                entries.append((tpl, label, ("list", page), conj(conds)))
            elif href.startswith(PU + "/\x00FIRST:"):
                lst = href[len(PU + "/\x00FIRST:"):].rstrip("\x00")
                entries.append((tpl, label, ("first", lst), conj(conds)))
            elif "lists/" in href or "FIRST:" in href:
                raise LookupError(f"{tpl}: unrecognised navigation href {href!r}")

    def walk(tpl, node, conds):
        if isinstance(node, N.If):
            t = j_cond(node.test)
            for b in node.body:
                walk(tpl, b, conds + [t])
            neg = [("not", t)]
            for el in node.elif_:
                t2 = j_cond(el.test)
                for b in el.body:
                    walk(tpl, b, conds + neg + [t2])
                neg.append(("not", t2))
            for b in node.else_:
                walk(tpl, b, conds + neg)
        elif isinstance(node, N.Output):
            handle_output(tpl, node, conds)
        else:
            for ch in node.iter_child_nodes():
                walk(tpl, ch, conds)

    n_text = 0
    for f in sorted(tdir.glob("*.html")):
        src = f.read_text()
        k = len(re.findall(r"/lists/", src)) + len(re.findall(r"project\.\w+\[0\]\.get_url\(\)", src))
        if k and f.name not in ("base.html", "index.html"):
            raise LookupError(f"navigation link into lists/ in unexpected template {f.name}")
        n_text += k
        if f.name in ("base.html", "index.html"):
            walk(f.name, fo.env.parse(src), [])
    if len(entries) != n_text or not entries:
        raise LookupError(f"{n_text} navigation hrefs in the template text but {len(entries)} recognised in the Jinja AST")
    idx = (tdir / "index.html").read_text()
    if '{% extends "base.html" %}' not in idx:
        raise LookupError("index.html does not extend base.html")
    return entries



def _regex_tree(pattern: str, flags: int):
    """parse tree of a pattern with layout (re.VERBOSE) and comments gone - the `re` parser drops them itself"""
    try:
        import re._parser as sre_parse   # Python >= 3.11
    except ImportError:  # pragma: no cover
        import sre_parse
    return str(sre_parse.parse(pattern, flags))


def _same_regex(compiled, want_pattern: str, want_flags: int, what: str):
    """The compiled object means the same as `want_pattern` with `want_flags`: same parse tree after the `re` parser has
    stripped verbose layout, same flags apart from VERBOSE / UNICODE; and, as a second opinion, the same answers on all
    strings up to length 5 over a small alphabet drawn from the pattern."""
    import itertools

    ign = re.VERBOSE | re.UNICODE
    if (compiled.flags & ~ign) != ((want_flags | re.compile(want_pattern, want_flags).flags) & ~ign):
        raise LookupError(f"{what}: flags changed: {compiled.flags}")
    if _regex_tree(compiled.pattern, compiled.flags) != _regex_tree(want_pattern, want_flags):
        want = re.compile(want_pattern, want_flags)
        alphabet = "<p>/x\n"
        for n in range(0, 6):
            for tup in itertools.product(alphabet, repeat=n):
                t = "".join(tup)
                a, b = compiled.search(t), want.search(t)
                if (a.span() if a else None) != (b.span() if b else None):
                    raise LookupError(f"{what} changed: {compiled.pattern!r} differs from {want_pattern!r} on {t!r}")
        raise LookupError(f"{what} changed: {compiled.pattern!r} (agrees with {want_pattern!r} on short strings, but its parse tree differs)")


# ----------------------------------------------------------------- summary / "Read more" link, path normalisation

def extract_readmore(repo: Path):
    """Shape of the summary rule and of the "Read more" link in FortranBase.markdown (ford/sourceform.py)."""
    import ford.sourceform as sf

    _same_regex(sf.PARA_CAPTURE_RE, r"<p>.*?</p>", re.IGNORECASE | re.DOTALL, "PARA_CAPTURE_RE")
    tree = ast.parse((repo / "ford" / "sourceform.py").read_text())
    fn = _func(tree, "FortranBase", "markdown")
    for name, cls in vars(sf).items():
        if isinstance(cls, type) and issubclass(cls, sf.FortranBase) and cls is not sf.FortranBase and "markdown" in vars(cls):
            raise LookupError(f"{name} overrides markdown()")
    assigns = [n for n in ast.walk(fn) if isinstance(n, (ast.Assign, ast.AugAssign))
               and ast.unparse(n.targets[0] if isinstance(n, ast.Assign) else n.target) == "self.meta.summary"]
    if len(assigns) != 4:
        raise LookupError(f"FortranBase.markdown: {len(assigns)} assignments to self.meta.summary (expected 4)")
    # the if / elif / else chain
    chain = None
    for n in ast.walk(fn):
        if isinstance(n, ast.If) and ast.unparse(n.test) == "self.meta.summary is not None":
            chain = n
    if chain is None or len(chain.body) != 1 or len(chain.orelse) != 1 or not isinstance(chain.orelse[0], ast.If):
        raise LookupError("FortranBase.markdown: `if self.meta.summary is not None` chain has an unexpected shape")
    if not re.match(r"self\.meta\.summary = md(\.reset\(\))?\.convert\(", ast.unparse(chain.body[0])):
        raise LookupError("FortranBase.markdown: explicit summary is not md.convert(...)")
    el = chain.orelse[0]
    if ast.unparse(el.test) != "(paragraph := PARA_CAPTURE_RE.search(self.doc))" or len(el.body) != 1 or len(el.orelse) != 1:
        raise LookupError("FortranBase.markdown: paragraph branch has an unexpected shape: " + ast.unparse(el.test))
    if ast.unparse(el.orelse[0]) != "self.meta.summary = ''":
        raise LookupError("FortranBase.markdown: summary of a documentation without paragraph is not ''")
    val = ast.unparse(el.body[0].value) if isinstance(el.body[0], ast.Assign) else "?"
    if val in ("paragraph.group() if self.get_url() else self.doc", "paragraph.group() if self.get_url() is not None else self.doc"):
        rule = "cutIfUrl"
    elif val == "paragraph.group()":
        rule = "cutAlways"
    else:
        raise LookupError("FortranBase.markdown: unsupported summary rule: " + val)
    # the link
    link_if = None
    for n in ast.walk(fn):
        if isinstance(n, ast.If) and len(n.body) == 1 and isinstance(n.body[0], ast.AugAssign) \
                and ast.unparse(n.body[0].target) == "self.meta.summary":
            link_if = n
    if link_if is None or link_if.orelse or not isinstance(link_if.body[0].op, ast.Add):
        raise LookupError("FortranBase.markdown: `self.meta.summary += <link>` not found under a plain `if`")
    cmp_txt = "self.meta.summary.strip() != self.doc.strip()"
    t = link_if.test
    if ast.unparse(t) == cmp_txt:
        needs_url = False
    elif isinstance(t, ast.BoolOp) and isinstance(t.op, ast.And) and len(t.values) == 2 \
            and sorted(ast.unparse(v) for v in t.values) == sorted([cmp_txt, "self.get_url()"]):
        needs_url = True
    else:
        raise LookupError("FortranBase.markdown: unsupported guard of the Read-more link: " + ast.unparse(t))
    v = link_if.body[0].value
    if not (isinstance(v, ast.JoinedStr) and len(v.values) == 3 and isinstance(v.values[0], ast.Constant)
            and v.values[0].value == '<a href="../' and isinstance(v.values[1], ast.FormattedValue)
            and ast.unparse(v.values[1].value) == "self.get_url()" and v.values[2].value.startswith('"')):
        raise LookupError("FortranBase.markdown: the Read-more link is not f'<a href=\"../{self.get_url()}\" ...'")
    return {"summary_rule": rule, "link_needs_url": needs_url}


_PROBE_N = [0]


def probe_relurl_filter():
    """What the registered `relurl` filter does, observed on the real callable (whatever it is called, however it is split
    into helpers): (a) an absolute href below the root is replaced by `relpath(href, directory of the page)`;
    (b) whether it searches the text for the *resolved* href (then an href that reaches its target through a symbolic
    link is left alone) or for the href as written; (c) which part of the page's location an earlier result is reused
    by - sequences of two calls with the same text on pages that agree in one component of their path only."""
    import os
    import shutil
    import tempfile
    import ford.output as fo

    filt = fo.env.filters.get("relurl")
    if filt is None:
        raise LookupError("no Jinja filter `relurl` is registered")
    tmp = Path(os.path.realpath(tempfile.mkdtemp(prefix="ford-c09-probe-")))
    try:
        (tmp / "real" / "doc").mkdir(parents=True)
        os.symlink(tmp / "real", tmp / "work", target_is_directory=True)
        root = tmp / "real" / "doc"

        def call(root_, tgt, page):
            href = f"{root_}/{tgt}"
            res = str(filt(f"<a href='{href}'>x</a>", root / page))
            m = re.fullmatch(r"<a href='([^']*)'>x</a>", res)
            return m.group(1) if m else res

        def fresh():
            _PROBE_N[0] += 1
            return f"zz{os.getpid()}x{_PROBE_N[0]}/t.html"

        # (a)
        for page in ("index.html", "lists/files.html", "page/sub/deeper/last.html"):
            tgt = fresh()
            got, want = call(root, tgt, page), os.path.relpath(f"{root}/{tgt}", (root / page).parent)
            if got != want:
                raise LookupError(f"the relurl filter gives {got!r} for a link to {tgt} on {page}; expected {want!r}")
        # (b) href through the symbolic link, page addressed by its real location
        tgt = fresh()
        via = tmp / "work" / "doc"
        got = call(via, tgt, "lists/files.html")
        if got == f"{via}/{tgt}":
            resolves = True
        elif got == os.path.relpath(f"{via}/{tgt}", root / "lists"):
            resolves = False
        else:
            raise LookupError(f"the relurl filter turns an href that crosses a symbolic link into {got!r}")
        # (c)
        groups = {
            "dirName": [("page/dev/examples/index.html", "page/examples/first.html"), ("page/a/x/i.html", "page/b/c/x/j.html"),
                        ("module/m.html", "page/module/index.html")],
            "fileName": [("page/a/index.html", "page/b/c/index.html"), ("index.html", "page/index.html")],
            "neither": [("proc/x.html", "page/sub/y.html"), ("lists/files.html", "index.html")],
        }
        wrong = {}
        for g, pairs in groups.items():
            bad = 0
            for a, b in pairs:
                tgt = fresh()
                first, second = call(root, tgt, a), call(root, tgt, b)
                if first != os.path.relpath(f"{root}/{tgt}", (root / a).parent):
                    raise LookupError(f"the relurl filter gives {first!r} for a link to {tgt} on {a}")
                bad += second != os.path.relpath(f"{root}/{tgt}", (root / b).parent)
            wrong[g] = (bad, len(pairs))
        none = all(b == 0 for b, _n in wrong.values())
        allbad = {g: b == n for g, (b, n) in wrong.items()}
        if none:
            key = "none"
        elif allbad["dirName"] and wrong["fileName"][0] == 0 and wrong["neither"][0] == 0:
            key = "dirName"
        elif allbad["fileName"] and wrong["dirName"][0] == 0 and wrong["neither"][0] == 0:
            key = "fileName"
        elif all(allbad.values()):
            key = "textOnly"
        else:
            raise LookupError(f"the relurl filter reuses earlier results in a way that is not understood: wrong second results {wrong}")
    finally:
        shutil.rmtree(tmp, ignore_errors=True)
    return {"relurl_resolves": resolves, "memo_key": key}


def probe_normalise_path():
    """`ford.utils.normalise_path` on a directory reached through a symbolic link: dereferenced or kept?"""
    import os
    import shutil
    import tempfile
    from ford.utils import normalise_path

    tmp = Path(os.path.realpath(tempfile.mkdtemp(prefix="ford-c09-probe-")))
    try:
        (tmp / "real" / "doc").mkdir(parents=True)
        os.symlink(tmp / "real", tmp / "work", target_is_directory=True)
        modes = set()
        for rel in ("doc", "./doc", "../work/doc", "doc/../doc"):
            got = str(normalise_path(tmp / "work", rel))
            if got == str(tmp / "real" / "doc"):
                modes.add("resolve")
            elif os.path.normpath(got) == str(tmp / "work" / "doc"):
                # (`.absolute()` alone does not even collapse `..`; for the link mechanism it is the same case: links kept)
                modes.add("abspath")
            else:
                raise LookupError(f"normalise_path({tmp / 'work'}, {rel!r}) = {got}")
        if len(modes) != 1:
            raise LookupError(f"normalise_path treats symbolic links inconsistently: {sorted(modes)}")
    finally:
        shutil.rmtree(tmp, ignore_errors=True)
    return modes.pop()


def extract_relurl(repo: Path):
    """How ford.utils.normalise_path tidies a path setting, what the relurl filter searches for in the link text and what
    it reuses (all three probed on the real callables), and where project_url comes from in relative mode."""
    mode = probe_normalise_path()
    pr = probe_relurl_filter()
    resolves = pr["relurl_resolves"]
    tree = ast.parse((repo / "ford" / "settings.py").read_text())
    np_ = ast.unparse(_func(tree, "ProjectSettings", "normalise_paths"))
    if "setattr(self, key, normalise_path(self.directory, value))" not in np_:
        raise LookupError("ProjectSettings.normalise_paths no longer puts Path settings through normalise_path")
    if "if self.relative:\n        self.project_url = self.output_dir" not in np_:
        raise LookupError("ProjectSettings.normalise_paths: project_url is not output_dir in relative mode")
    return {"normalise_mode": mode, "relurl_resolves": resolves, "memo_key": pr["memo_key"]}


# ----------------------------------------------------------------- which conversions start from a reset Markdown converter

MD_SITES = {"C09PROBEPROJDOCS": "projectDocs", "C09PROBEENTITYDOC": "entityDoc", "C09PROBEENTITYSUMMARY": "entitySummary",
            "C09PROBEPROJSUMMARY": "projectSummary", "C09PROBEAUTHORDESC": "authorDescription", "C09PROBESTATICPAGE": "staticPage"}


def extract_mdreset(repo: Path):
    """Run the real pipeline (`ford.main`) on a six-text project with a probe on `MetaMarkdown.convert`: after every
    conversion a marker footnote is put into the converter's footnote table; a conversion that still finds the marker did
    not start from a reset converter.  Which function does the resetting (FortranBase.markdown, the loop of
    Project.markdown, a helper) does not matter - only whether the text converted before can show through."""
    import shutil
    import tempfile
    import ford._markdown as fm
    from markdown.extensions.footnotes import FootnoteExtension
    from harness import e2e

    seen: dict[str, list[bool]] = {}
    orig = fm.MetaMarkdown.convert

    def convert(self, source, *a, **kw):
        ext = next((e for e in getattr(self, "registeredExtensions", []) if isinstance(e, FootnoteExtension)), None)
        if ext is None:
            raise LookupError("the Markdown converter has no footnote extension")
        clean = "c09-probe-marker" not in ext.footnotes
        flat = source.replace("\n", "")   # (`"\\n".join(summary)` of the unchanged code puts every character on a line of its own)
        for mark, site in MD_SITES.items():
            if mark in flat:
                seen.setdefault(site, []).append(clean)
        r = orig(self, source, *a, **kw)
        if source.strip():   # (a blank text is returned as "" without running any processor: it leaves nothing behind)
            ext.setFootnote("c09-probe-marker", "left in the table by the text converted before")
        return r

    files = {"a.f90": "module c09probe_a\n  !! summary: C09PROBEENTITYSUMMARY\n  !!\n  !! C09PROBEENTITYDOC one\n"
                      "contains\n  subroutine c09probe_s()\n    !! C09PROBEENTITYDOC two\n  end subroutine c09probe_s\n"
                      "end module c09probe_a\n",
             "b.f90": "module c09probe_b\n  !! summary: C09PROBEENTITYSUMMARY\n  !!\n  !! C09PROBEENTITYDOC three\n"
                      "  integer :: v\n    !! C09PROBEENTITYDOC four\nend module c09probe_b\n"}
    opts = {"summary": "C09PROBEPROJSUMMARY", "author": "A", "author_description": "C09PROBEAUTHORDESC",
            "quiet": "true", "warn": "false", "parallel": "0"}
    pages = {"index.md": "title: T\n\nC09PROBESTATICPAGE one\n", "second.md": "title: S\n\nC09PROBESTATICPAGE two\n",
             "sub/index.md": "title: U\n\nC09PROBESTATICPAGE three\n"}
    tmp = Path(tempfile.mkdtemp(prefix="ford-c09-mdprobe-"))
    fm.MetaMarkdown.convert = convert
    try:
        pf = e2e.write_project(tmp / "proj", files, opts, text="C09PROBEPROJDOCS\n", pages=pages)
        r = e2e.run_inprocess(pf)
    finally:
        fm.MetaMarkdown.convert = orig
        shutil.rmtree(tmp, ignore_errors=True)
    if r["rc"] != 0:
        raise LookupError(f"probe of the Markdown conversions: ford failed on the probe project: {r['exc']}")
    want = {"projectDocs": 1, "entityDoc": 4, "entitySummary": 2, "projectSummary": 1, "authorDescription": 1, "staticPage": 3}
    for site, n in want.items():
        if len(seen.get(site, [])) != n:
            raise LookupError(f"probe of the Markdown conversions: {len(seen.get(site, []))} conversions at site {site}, expected {n}")
    # every conversion at the site starts clean / only the first one does (a reset in front of a loop) / neither
    return {"md_resets": [site for site in want if all(seen[site])],
            "md_resets_first": [site for site in want if len(seen[site]) > 1 and seen[site][0] and not any(seen[site][1:])]}


# ----------------------------------------------------------------- assets: `{{ project_url }}/<path>` links vs Documentation.writeout

def _merge_pieces(ps):
    """adjacent literals joined; empty literals dropped"""
    out = []
    for k, v in ps:
        if k == "lit":
            if not v:
                continue
            if out and out[-1][0] == "lit":
                out[-1] = ("lit", out[-1][1] + v)
                continue
        out.append((k, v))
    return out


def _data_key(n):
    """`self.data["k"]` -> k"""
    if isinstance(n, ast.Subscript) and ast.unparse(n.value) == "self.data" and isinstance(n.slice, ast.Constant) \
            and isinstance(n.slice.value, str):
        return n.slice.value
    return None


def asset_py_cond(n):
    """conditions of the `if`s of Documentation.writeout over the settings dictionary `self.data` (None values are
    dropped from it in __init__, so `"k" in self.data` <-> the template variable `k` is defined and true for Path values)"""
    if isinstance(n, ast.BoolOp):
        op = "and" if isinstance(n.op, ast.And) else "or"
        out = asset_py_cond(n.values[0])
        for v in n.values[1:]:
            out = (op, out, asset_py_cond(v))
        return out
    if isinstance(n, ast.UnaryOp) and isinstance(n.op, ast.Not):
        return ("not", asset_py_cond(n.operand))
    if isinstance(n, ast.Compare) and len(n.ops) == 1 and isinstance(n.left, ast.Constant) and isinstance(n.left.value, str) \
            and ast.unparse(n.comparators[0]) == "self.data":
        if isinstance(n.ops[0], ast.In):
            return ("opt", n.left.value)
        if isinstance(n.ops[0], ast.NotIn):
            return ("not", ("opt", n.left.value))
    if _data_key(n):
        return ("opt", _data_key(n))
    if _settings_opt(n):
        return ("opt", _settings_opt(n))
    # anything else: an uninterpreted boolean (the theorem quantifies over its values)
    return ("opt", "?" + re.sub(r"\s+", " ", ast.unparse(n))[:60])


def _dyn_key_py(n):
    """key of a dynamic path piece (the template side must produce the same key for the same value)"""
    if isinstance(n, ast.Call) and ast.unparse(n.func) in ("os.path.basename", "path.basename") and len(n.args) == 1:
        k = _data_key(n.args[0])
        if k:
            return f"basename({k})"
    k = _data_key(n)
    if k:
        return k
    return "py:" + re.sub(r"\s+", " ", ast.unparse(n))


def _py_pieces(n, env):
    """path expression -> (rooted at the output directory?, pieces)"""
    if isinstance(n, ast.BinOp) and isinstance(n.op, ast.Div):
        rooted, left = _py_pieces(n.left, env)
        _r, right = _py_pieces(n.right, env)
        if left is None or right is None:
            return rooted, None
        return rooted, left + ([("lit", "/")] if left else []) + right
    if isinstance(n, ast.Name):
        if n.id in env:
            return env[n.id]
        return False, [("dyn", "py:" + n.id)]
    if isinstance(n, ast.Constant) and isinstance(n.value, str):
        return False, [("lit", n.value)]
    if isinstance(n, ast.JoinedStr):
        ps = []
        for v in n.values:
            if isinstance(v, ast.Constant):
                ps.append(("lit", str(v.value)))
            else:
                ps.append(("dyn", _dyn_key_py(v.value)))
        return False, ps
    if _data_key(n) == "output_dir" or ast.unparse(n) in ("self.out_dir", "self.settings.output_dir"):
        return True, []
    return False, [("dyn", _dyn_key_py(n))]


def _shipped_listing(repo: Path, d: str):
    base = repo / "ford" / d
    if not base.is_dir():
        raise LookupError(f"Documentation.writeout copies ford/{d}, which is not a directory of the package")
    return sorted(str(f.relative_to(base)) for f in base.rglob("*") if f.is_file())


COPY_FUNCS = {"shutil.copy": "file", "shutil.copy2": "file", "shutil.copyfile": "file", "copytree": "tree", "shutil.copytree": "tree"}


def extract_asset_writes(repo: Path):
    """Every file / tree that Documentation.writeout copies below the output directory, and the pages it writes whose
    output file is a constant (index.html, search.html): (pieces of the destination, kind, condition)."""
    import ford.output as fo

    tree = ast.parse((repo / "ford" / "output.py").read_text())
    wo = _func(tree, "Documentation", "writeout")
    writes = []
    seen_calls = []

    def visit(stmts, conds, env):
        for s in stmts:
            if isinstance(s, (ast.Assign, ast.AnnAssign)):
                tgt = s.targets[0] if isinstance(s, ast.Assign) else s.target
                if isinstance(tgt, ast.Name) and s.value is not None:
                    env[tgt.id] = _py_pieces(s.value, env)
                continue
            if isinstance(s, ast.If):
                c = asset_py_cond(s.test)
                visit(s.body, conds + [c], dict(env))
                visit(s.orelse, conds + [("not", c)], dict(env))
                continue
            if isinstance(s, ast.For):
                if isinstance(s.iter, ast.List) and isinstance(s.target, ast.Name) \
                        and all(isinstance(e, ast.Constant) and isinstance(e.value, str) for e in s.iter.elts):
                    for e in s.iter.elts:
                        env2 = dict(env)
                        env2[s.target.id] = (False, [("lit", e.value)])
                        visit(s.body, conds, env2)
                else:
                    env2 = dict(env)
                    for t in ast.walk(s.target):
                        if isinstance(t, ast.Name):
                            env2.pop(t.id, None)
                    visit(s.body, conds, env2)
                continue
            if isinstance(s, ast.Try):
                visit(s.body, conds, dict(env))
                visit(s.orelse, conds, dict(env))
                visit(s.finalbody, conds, dict(env))
                for h in s.handlers:
                    visit(h.body, conds + [("opt", "?except")], dict(env))
                continue
            if isinstance(s, (ast.With,)):
                visit(s.body, conds, env)
                continue
            if isinstance(s, ast.Expr) and isinstance(s.value, ast.Call):
                fn = ast.unparse(s.value.func)
                if fn in COPY_FUNCS and len(s.value.args) >= 2:
                    seen_calls.append(s.value)
                    rooted, dest = _py_pieces(s.value.args[1], env)
                    if not rooted or dest is None:
                        raise LookupError("Documentation.writeout: destination not below the output directory: " + ast.unparse(s.value))
                    dest = _merge_pieces(dest)
                    if COPY_FUNCS[fn] == "file":
                        writes.append((dest, ("file",), conj(conds), ast.unparse(s.value)))
                    else:
                        src = s.value.args[0]
                        if isinstance(src, ast.BinOp) and isinstance(src.op, ast.Div) and ast.unparse(src.left) == "loc":
                            _r, sp = _py_pieces(src.right, env)
                            sp = _merge_pieces(sp or [])
                            if len(sp) != 1 or sp[0][0] != "lit":
                                raise LookupError("Documentation.writeout: copytree of a computed package directory: " + ast.unparse(s.value))
                            writes.append((dest, ("shipped", _shipped_listing(repo, sp[0][1])), conj(conds), ast.unparse(s.value)))
                        else:
                            writes.append((dest, ("user",), conj(conds), ast.unparse(s.value)))
                elif fn == "self.tipue.print_output":
                    # the search index: Tipue_Search_JSON_Generator(settings.output_dir, ..).print_output()
                    tt = ast.parse((repo / "ford" / "tipue_search.py").read_text())
                    po = _func(tt, "Tipue_Search_JSON_Generator", "print_output")
                    tgt = None
                    for a in po.body:
                        if isinstance(a, ast.Assign) and ast.unparse(a.targets[0]) == "path":
                            _r, tgt = _py_pieces(a.value, {})
                            if not ast.unparse(a.value).startswith("self.output_path /"):
                                tgt = None
                    if not tgt or "with open(path, 'w'" not in ast.unparse(po):
                        raise LookupError("Tipue_Search_JSON_Generator.print_output: `path = self.output_path / ...` + open(path, 'w') not found")
                    if "Tipue_Search_JSON_Generator(settings.output_dir," not in re.sub(r"\s+", "", ast.unparse(_func(tree, "Documentation", "__init__"))):
                        raise LookupError("Documentation.__init__: the search index is not written below settings.output_dir")
                    # drop the leading dynamic piece `self.output_path`
                    tgt = _merge_pieces(tgt)
                    if not (tgt and tgt[0][0] == "dyn" and tgt[1][0] == "lit" and tgt[1][1].startswith("/")):
                        raise LookupError("Tipue_Search_JSON_Generator.print_output: unexpected path expression")
                    writes.append(([("lit", tgt[1][1][1:])] + tgt[2:], ("file",), conj(conds), "self.tipue.print_output() -> " + show_pieces(tgt)))
    out_env = {}
    visit(wo.body, [], out_env)
    n_calls = sum(1 for n in ast.walk(wo) if isinstance(n, ast.Call) and ast.unparse(n.func) in COPY_FUNCS)
    if n_calls != len({id(c) for c in seen_calls}) or not writes:
        raise LookupError(f"Documentation.writeout: {n_calls} copy calls, {len({id(c) for c in seen_calls})} recognised as statements")
    # the pages with a constant output file that writeout writes unconditionally: `[self.index, self.search]`
    items = None
    for n in ast.walk(wo):
        if isinstance(n, ast.Call) and ast.unparse(n.func) == "chain" and any(isinstance(a, ast.List) for a in n.args):
            items = [ast.unparse(e) for a in n.args if isinstance(a, ast.List) for e in a.elts]
    if not items:
        raise LookupError("Documentation.writeout: chain(..., [self.index, self.search]) not found")
    lt = _func(tree, "ListTopPage", "outfile")
    if "return self.out_dir / self.template_path" not in ast.unparse(lt):
        raise LookupError("ListTopPage.outfile is not out_dir / template_path")
    init = _func(tree, "Documentation", "__init__")
    for it in items:
        cls = None
        for n in init.body:
            if isinstance(n, ast.Assign) and ast.unparse(n.targets[0]) == it and isinstance(n.value, ast.Call):
                cls = ast.unparse(n.value.func)
        k = getattr(fo, cls, None) if cls else None
        if k is None or not issubclass(k, fo.ListTopPage) or not isinstance(getattr(k, "template_path", None), str):
            raise LookupError(f"Documentation.writeout: page {it} is not an unconditionally made ListTopPage with a constant template_path")
        writes.append(([("lit", k.template_path)], ("page",), ("tt",), f"{it}.writeout() -> {cls}.outfile"))
    # the settings dictionary has no None values (that is what makes `"k" in self.data` the template's `{% if k %}`)
    if "self.data = {k: v for k, v in asdict(settings).items() if v is not None}" not in ast.unparse(init):
        raise LookupError("Documentation.__init__: self.data is no longer the settings without None values")
    return writes


def asset_j_cond(n):
    from jinja2 import nodes as N

    if isinstance(n, N.And):
        return ("and", asset_j_cond(n.left), asset_j_cond(n.right))
    if isinstance(n, N.Or):
        return ("or", asset_j_cond(n.left), asset_j_cond(n.right))
    if isinstance(n, N.Not):
        return ("not", asset_j_cond(n.node))
    if isinstance(n, N.Name):
        return ("opt", n.name)
    # `flag|lower == 'true'` of a boolean setting
    if isinstance(n, N.Compare) and len(n.ops) == 1 and n.ops[0].op == "eq" and isinstance(n.ops[0].expr, N.Const) \
            and n.ops[0].expr.value == "true" and isinstance(n.expr, N.Filter) and n.expr.name == "lower" \
            and isinstance(n.expr.node, N.Name):
        return ("opt", n.expr.node.name)
    return ("opt", "?" + re.sub(r"\s+", " ", repr(n))[:60])


def _dyn_key_j(n):
    from jinja2 import nodes as N

    if isinstance(n, N.Call) and isinstance(n.node, N.Getattr) and n.node.attr == "basename" and isinstance(n.node.node, N.Name) \
            and n.node.node.name == "path" and len(n.args) == 1 and isinstance(n.args[0], N.Name):
        return f"basename({n.args[0].name})"
    if isinstance(n, N.Name):
        return n.name
    return "j:" + re.sub(r"\s+", " ", repr(n))[:80]


ASSET_ATTR_RE = re.compile(r'<(\w+)\b[^<>]*?\s(href|src|action|data|poster)="' + re.escape(PU) + r'/([^"]*)"', re.S)


def extract_asset_links(repo: Path, nav_entries):
    """Every `<tag attr="{{ project_url }}/<path>">` of every template that is not one of the navigation links into
    lists/ or at project.X[0] (those are `navConds`): (template, tag, attr, pieces, condition)."""
    import ford.output as fo
    from jinja2 import nodes as N

    tdir = repo / "ford" / "templates"
    links = []

    def handle_output(tpl, node, conds):
        text, dyn = "", []
        for ch in node.nodes:
            if isinstance(ch, N.TemplateData):
                text += ch.data
            elif isinstance(ch, N.Name) and ch.name == "project_url":
                text += PU
            else:
                text += "\x00D%d\x00" % len(dyn)
                dyn.append(ch)
        for m in ASSET_ATTR_RE.finditer(text):
            tag, attr, rest = m.group(1), m.group(2), m.group(3)
            if rest.startswith("lists/") or rest.startswith("\x00D"):
                continue  # navigation links (navConds)
            ps = []
            for part in re.split(r"(\x00D\d+\x00)", rest):
                mm = re.fullmatch(r"\x00D(\d+)\x00", part)
                if mm:
                    ps.append(("dyn", _dyn_key_j(dyn[int(mm.group(1))])))
                elif part:
                    ps.append(("lit", part))
            links.append((tpl, tag, attr, _merge_pieces(ps), conj(conds)))

    def walk(tpl, node, conds):
        if isinstance(node, N.If):
            t = asset_j_cond(node.test)
            for b in node.body:
                walk(tpl, b, conds + [t])
            neg = [("not", t)]
            for el in node.elif_:
                t2 = asset_j_cond(el.test)
                for b in el.body:
                    walk(tpl, b, conds + neg + [t2])
                neg.append(("not", t2))
            for b in node.else_:
                walk(tpl, b, conds + neg)
        elif isinstance(node, N.Output):
            handle_output(tpl, node, conds)
        else:
            for ch in node.iter_child_nodes():
                walk(tpl, ch, conds)

    for f in sorted(tdir.glob("*.html")):
        src = f.read_text()
        n_text = len(re.findall(r"\{\{\s*project_url\s*\}\}/", src))
        before = len(links)
        walk(f.name, fo.env.parse(src), [])
        n_nav = sum(1 for e in nav_entries if e[0] == f.name)
        if len(links) - before + n_nav != n_text:
            raise LookupError(f"{f.name}: {n_text} `{{{{ project_url }}}}/` URLs in the text, {len(links) - before} asset links + "
                              f"{n_nav} navigation links recognised in the Jinja AST")
    if not links:
        raise LookupError("no asset links found in the templates")
    return links


def extract_aliases(repo: Path):
    """The built-in aliases `main` hands to the Markdown object: name -> pieces below `project_url`; and the directory
    below the output root under which the static pages are written (BasePage.page_dir), as one more "user tree"."""
    tree = ast.parse((repo / "ford" / "__init__.py").read_text())
    m = _func(tree, None, "main")
    root_var, table = None, None
    for n in ast.walk(m):
        if isinstance(n, ast.Assign) and isinstance(n.targets[0], ast.Name) and ast.unparse(n.value) == "pathlib.Path(proj_data.project_url)":
            root_var = n.targets[0].id
        if isinstance(n, ast.Call) and ast.unparse(n.func) == "aliases.update" and n.args and isinstance(n.args[0], ast.Dict) \
                and any(isinstance(k, ast.Constant) and k.value == "url" for k in n.args[0].keys):
            table = n.args[0]
    if root_var is None or table is None:
        raise LookupError("main: `url_path = pathlib.Path(proj_data.project_url)` / `aliases.update({'url': ...})` not found")
    aliases = []
    for k, v in zip(table.keys, table.values):
        if not (isinstance(k, ast.Constant) and isinstance(k.value, str) and isinstance(v, ast.Call) and ast.unparse(v.func) == "str" and len(v.args) == 1):
            raise LookupError("main: built-in alias with an unexpected shape: " + ast.unparse(v))
        rooted, ps = _py_pieces(v.args[0], {root_var: (True, [])})
        if not rooted or ps is None:
            raise LookupError("main: built-in alias not below project_url: " + ast.unparse(v))
        aliases.append((k.value, _merge_pieces(ps)))
    if {a for a, _ in aliases} != {"url", "media", "page"}:
        raise LookupError("main: built-in aliases are no longer url / media / page: " + str([a for a, _ in aliases]))
    otree = ast.parse((repo / "ford" / "output.py").read_text())
    bp = _func(otree, "BasePage", "__init__")
    page_dir = None
    for n in bp.body:
        if isinstance(n, ast.Assign) and ast.unparse(n.targets[0]) == "self.page_dir":
            rooted, ps = _py_pieces(n.value, {})
            if rooted and ps is not None:
                page_dir = _merge_pieces(ps)
    if page_dir is None:
        raise LookupError("BasePage.__init__: self.page_dir is not a path below self.out_dir")
    return aliases, (page_dir, ("user",), ("tt",), "PagetreePage.outfile = self.page_dir / self.obj.path; copies of page_dir below it")


def probe_pagecopy():
    """What PagetreePage.writeout really writes for an index page and for another page of a directory that has a
    `copy_subdir` directory (with a nested file) and a plain file: observed on a real object of the class (only `render`
    is stubbed) in a scratch tree.  -> (guard of the copy_subdir copies, guard of the file copies); everything written must
    be where the model puts it: <out>/page/<location>/<stem>.html, <out>/page/<location>/<dir>/..., <out>/page/<location>/<file>."""
    import os
    import shutil
    import tempfile
    from types import SimpleNamespace
    import ford.output as fo
    from ford.settings import EntitySettings

    class _Probe(fo.PagetreePage):
        def render(self, data, proj, obj):
            return "<html></html>"

    ran = {"copy": {}, "files": {}}
    tmp = Path(os.path.realpath(tempfile.mkdtemp(prefix="ford-c09-pageprobe-")))
    try:
        src = tmp / "pages"
        (src / "sub" / "figs" / "deep").mkdir(parents=True)
        (src / "sub" / "figs" / "a.png").write_bytes(b"a")
        (src / "sub" / "figs" / "deep" / "b.csv").write_bytes(b"b")
        (src / "sub" / "notes.txt").write_bytes(b"n")
        for stem in ("index", "other"):
            out = tmp / ("doc_" + stem)
            (out / "page").mkdir(parents=True)
            if stem != "index":
                (out / "page" / "sub").mkdir()      # made when the directory's index page is written
            obj = SimpleNamespace(filename=Path(stem), location=Path("sub"), path=Path("sub") / f"{stem}.html", copy_subdir=["figs"],
                                  files=["notes.txt"], meta=EntitySettings(), obj="page", name=stem)
            proj = SimpleNamespace(settings=SimpleNamespace(project_url=out))
            page = _Probe({"output_dir": out, "page_dir": src, "relative": True}, proj, obj)
            page.writeout()
            got = sorted(str(f.relative_to(out)) for f in out.rglob("*") if f.is_file())
            html, copies, plain = f"page/sub/{stem}.html", ["page/sub/figs/a.png", "page/sub/figs/deep/b.csv"], "page/sub/notes.txt"
            if html not in got:
                raise LookupError(f"PagetreePage.writeout: the page is not written to <out>/{html}: {got}")
            ran["copy"][stem] = all(c in got for c in copies)
            ran["files"][stem] = plain in got
            extra = [g for g in got if g != html and g not in copies and g != plain]
            if extra or (any(c in got for c in copies) and not ran["copy"][stem]):
                raise LookupError(f"PagetreePage.writeout writes {extra or got} - not the copies <out>/page/<location>/<item> of the model")
    finally:
        shutil.rmtree(tmp, ignore_errors=True)

    def guard(r):
        return {(True, True): "always", (True, False): "indexOnly", (False, True): "nonIndexOnly", (False, False): "never"}[(r["index"], r["other"])]

    return guard(ran["copy"]), guard(ran["files"])


PAGENAME_PROBE = ["index.md", "plain.md", "release-1.2.md", "v2.0-notes.md", "sub.dir/index.md", "sub.dir/a.b.c.md", "sub.dir/deep/index.md",
                  "sub.dir/deep/changes.2024.md"]


def probe_pagename():
    """How the three places that name a static page derive the name of its HTML file from the stem of the Markdown file:
    `PageNode.url` (every link FORD writes to the page), `PagetreePage.outfile` (the file written) and `PagetreePage.loc`
    (the search index URL) - observed on the real objects that the real `get_page_tree` builds for a scratch tree whose
    file and directory names contain dots.  Each must be <base>/page/<location>/<name> with <name> = `with_suffix(".html")`
    of the stem for all pages, or `<stem>.html` for all pages; anything else raises."""
    import os
    from pathlib import PurePosixPath
    from types import SimpleNamespace
    import ford.output as fo
    from ford._markdown import MetaMarkdown
    from ford.pagetree import get_page_tree

    with common.scratch_dir("ford-c09-nameprobe-") as d:
        d = Path(os.path.realpath(d))
        out = d / "doc"
        for rel in PAGENAME_PROBE:
            f = d / "pages" / rel
            f.parent.mkdir(parents=True, exist_ok=True)
            f.write_text(f"---\ntitle: T {rel}\n---\n\ntext\n")
        with common.quiet():
            top = get_page_tree(d / "pages", [], out, MetaMarkdown(base_url=out))
        if top is None:
            raise LookupError("get_page_tree returns nothing for the page-name probe tree")
        nodes = list(top)
        got_src = sorted((str(n.location).replace(os.sep, "/") + "/" + str(n.filename)).removeprefix("./") for n in nodes)
        if got_src != sorted(r[:-3] for r in PAGENAME_PROBE):
            raise LookupError(f"get_page_tree: pages of the probe tree are {got_src}")
        data = {"output_dir": out, "relative": True, "page_dir": d / "pages"}
        proj = SimpleNamespace(settings=SimpleNamespace(project_url=out))
        seen = {"url": [], "outfile": [], "loc": []}
        for n in nodes:
            pg = fo.PagetreePage(data, proj, n)
            loc = [x for x in str(n.location).replace(os.sep, "/").split("/") if x not in (".", "")]
            stem = str(n.filename)
            for place, val, root in (("url", n.url, out), ("outfile", pg.outfile, out), ("loc", pg.loc, None)):
                parts = list(Path(os.path.relpath(val, root)).parts) if root is not None else list(Path(val).parts)
                if parts[:1] != ["page"] or parts[1:-1] != loc:
                    raise LookupError(f"static page {'/'.join(loc + [stem])}.md: {place} is {val}, not <root>/page/<location>/<name>")
                seen[place].append((stem, parts[-1]))
    out_names = {}
    for place, obs in seen.items():
        if all(name == str(PurePosixPath(stem).with_suffix(".html")) for stem, name in obs):
            out_names[place] = "withSuffix"
        elif all(name == stem + ".html" for stem, name in obs):
            out_names[place] = "appendHtml"
        else:
            raise LookupError(f"static pages: {place} names the HTML files {obs} - neither with_suffix('.html') nor <stem>.html")
    return out_names


def extract_pagecopy(repo: Path):
    """For which pages PagetreePage.writeout copies the `copy_subdir` directories / the plain files of the page directory -
    probed on the real method (renamed locals, reordered statements, helpers do not matter; what is written where does)."""
    copy_guard, files_guard = probe_pagecopy()
    # PageNode: copy_subdir of the page itself first, the project setting as the fall-back
    ptree = ast.parse((repo / "ford" / "pagetree.py").read_text())
    pn = ast.unparse(_func(ptree, "PageNode", "__init__"))
    if "self.copy_subdir = self.meta.copy_subdir or proj_copy_subdir" not in pn:
        raise LookupError("PageNode.copy_subdir is no longer `meta.copy_subdir or proj_copy_subdir`")
    return {"copy_guard": copy_guard, "files_guard": files_guard, "page_names": probe_pagename()}


# ----------------------------------------------------------------- round 6: graph node URLs

def probe_graph_nodes():
    """`BaseNode.__init__` on real node objects for fake entities: the prefix put in front of an internal URL, the gates
    (`visible`; for a binding also the `visible` of its type), and that nodes made from text / of external entities keep
    their URL.  -> (prefix as given by graph_data.parent_dir?, visibleGate, boundGate, keepsForeign)"""
    from types import SimpleNamespace
    import ford.graphs as fg
    from ford.sourceform import FortranBoundProcedure

    gd = SimpleNamespace(parent_dir="PARENT/")

    def ent(cls=None, **kw):
        d = dict(ident="x", name="x", visible=True)
        d.update(kw)
        if cls is None:
            o = SimpleNamespace(**d)
        else:
            o = cls.__new__(cls)
            o.__dict__.update(d)
        o.get_dir = lambda: "module"
        o.get_url = lambda: "module/x.html"
        return o

    def url(o):
        return fg.BaseNode(o, gd).attribs.get("URL")

    plain = url(ent())
    if plain != "PARENT/module/x.html":
        raise LookupError(f"BaseNode: URL of an internal visible entity is {plain!r}, not graph_data.parent_dir + get_url()")
    hidden = url(ent(visible=False))
    if hidden not in (None, plain):
        raise LookupError(f"BaseNode: URL of an invisible entity is {hidden!r}")
    b_ok = url(ent(FortranBoundProcedure, parent=SimpleNamespace(visible=True)))
    b_hidden_parent = url(ent(FortranBoundProcedure, parent=SimpleNamespace(visible=False)))
    if b_ok != plain or b_hidden_parent not in (None, plain):
        raise LookupError(f"BaseNode: URL of a binding is {b_ok!r} / with an invisible type {b_hidden_parent!r}")
    nourl = ent()
    nourl.get_url = lambda: None
    if url(nourl) is not None:
        raise LookupError("BaseNode: an entity without URL gets a node URL")
    ext = url(ent(external_url="https://example.org/doc"))
    txt = fg.BaseNode("<a href='https://example.org/m.html'>m</a>", gd).attribs.get("URL")
    if ext == "module/x.html" and txt == "https://example.org/m.html":
        foreign = True
    elif ext == plain and txt == "PARENT/https://example.org/m.html":
        foreign = False
    else:
        raise LookupError(f"BaseNode: URL of an entity with external_url is {ext!r}, of a text node {txt!r}")
    return hidden is None, b_hidden_parent is None, foreign


def extract_graphurl(repo: Path):
    """parent_dir of a relative run (ast of Documentation.__init__ + the real GraphManager hands it to the nodes' graph data),
    the gates of BaseNode (probed), and the templates that print a graph (Jinja AST: `{{ <x>.<...graph> }}` directly or in a
    macro they call) with the depth of the pages rendered through them (outfile of a real page object of every class with
    that `template_path`)."""
    import os
    from types import SimpleNamespace
    import ford.output as fo
    import ford.graphs as fg
    from jinja2 import nodes as N

    otree = ast.parse((repo / "ford" / "output.py").read_text())
    init = _func(otree, "Documentation", "__init__")
    parent = None
    for n in ast.walk(init):
        if isinstance(n, ast.If) and ast.unparse(n.test) in ("settings.relative", "self.data['relative']", 'self.data["relative"]'):
            for st in n.body:
                if isinstance(st, ast.Assign) and isinstance(st.value, ast.Constant) and isinstance(st.value.value, str):
                    name = ast.unparse(st.targets[0])
                    calls = [c for c in ast.walk(init) if isinstance(c, ast.Call) and ast.unparse(c.func) == "GraphManager"]
                    if len(calls) == 1 and len(calls[0].args) >= 2 and ast.unparse(calls[0].args[1]) == name:
                        parent = st.value.value
    if parent is None:
        raise LookupError("Documentation.__init__: no `if settings.relative: <name> = '<prefix>'` handed to GraphManager as parent directory")
    gm = fg.GraphManager("", "SENTINEL/", False, False, save_graphs=False)
    if not any(getattr(v, "parent_dir", None) == "SENTINEL/" for v in vars(gm).values()):
        raise LookupError("GraphManager: the second argument is not the parent_dir of the graph data of the nodes")
    if parent and not parent.endswith("/"):
        raise LookupError(f"graph parent directory {parent!r} does not end with '/'")
    parent_segs = [x for x in parent[:-1].split("/")] if parent else []
    vis_gate, bound_gate, foreign = probe_graph_nodes()

    # templates that print a graph
    tdir = repo / "ford" / "templates"
    trees = {f.name: fo.env.parse(f.read_text()) for f in sorted(tdir.glob("*.html"))}

    def is_graph_output(t):
        for o in t.find_all(N.Output):
            for g in o.find_all(N.Getattr):
                if g.attr.endswith("graph"):
                    return True
        return False

    macro_graph = {}       # template -> macro names that print a graph
    for name, t in trees.items():
        for m in t.find_all(N.Macro):
            if is_graph_output(m):
                macro_graph.setdefault(name, set()).add(m.name)
    hosts = set()
    n_direct = 0
    for name, t in trees.items():
        direct = False
        for o in t.find_all(N.Output):
            # outputs that are not inside a macro definition of this template
            pass
        body_wo_macros = [o for o in t.find_all(N.Output)]
        in_macros = {id(o) for m in t.find_all(N.Macro) for o in m.find_all(N.Output)}
        for o in body_wo_macros:
            if id(o) in in_macros:
                continue
            if any(g.attr.endswith("graph") for g in o.find_all(N.Getattr)):
                direct = True
                n_direct += 1
        called = False
        imports = {}
        for imp in t.find_all(N.Import):
            if isinstance(imp.template, N.Const):
                imports[imp.target] = imp.template.value
        for c in t.find_all(N.Call):
            if isinstance(c.node, N.Getattr) and isinstance(c.node.node, N.Name) and c.node.node.name in imports \
                    and c.node.attr in macro_graph.get(imports[c.node.node.name], ()):
                called = True
            if isinstance(c.node, N.Name) and c.node.name in macro_graph.get(name, ()):
                called = True
        for fi in t.find_all(N.FromImport):
            if isinstance(fi.template, N.Const) and any((x if isinstance(x, str) else x[0]) in macro_graph.get(fi.template.value, ()) for x in fi.names):
                called = True
        if direct or called:
            hosts.add(name)
    text_count = sum(len(re.findall(r"\{\{\s*[\w.]+graph\s*\}\}", f.read_text())) for f in tdir.glob("*.html"))
    ast_count = sum(1 for t in trees.values() for o in t.find_all(N.Output) for g in o.find_all(N.Getattr) if g.attr.endswith("graph"))
    if text_count != ast_count or not hosts:
        raise LookupError(f"templates: {text_count} graph outputs in the text, {ast_count} in the Jinja AST, hosts {sorted(hosts)}")
    macro_only = {n for n in macro_graph if n not in hosts}
    # extends: a template that extends a host prints what the host prints in its blocks - none today; pin it
    for name, t in trees.items():
        for e in t.find_all(N.Extends):
            if isinstance(e.template, N.Const) and e.template.value in hosts:
                hosts.add(name)

    # depth of the pages of every class rendered through a host template
    data = {"output_dir": Path("/o"), "page_dir": Path("/src/pages"), "relative": True}
    proj = SimpleNamespace(settings=SimpleNamespace(project_url=Path("/o")))
    by_tpl = {}
    for cname, cls in vars(fo).items():
        if isinstance(cls, type) and issubclass(cls, fo.BasePage) and isinstance(cls.__dict__.get("template_path"), str):
            by_tpl.setdefault(cls.template_path, []).append(cls)
    out = []
    for h in sorted(hosts):
        classes = by_tpl.get(h, [])
        if not classes:
            raise LookupError(f"template {h} prints a graph but no page class has it as template_path")
        depths = set()
        for cls in classes:
            if issubclass(cls, fo.PagetreePage):
                depths.add("other")
                continue
            obj = SimpleNamespace(get_dir=lambda: "dd", ident="x", name="x", obj="proc", meta=None)
            try:
                pg = cls(data, proj, obj) if issubclass(cls, fo.DocPage) else cls(data, proj)
                rel = os.path.relpath(pg.outfile, "/o")
            except Exception as e:  # noqa: BLE001
                raise LookupError(f"page class {cname} of template {h}: cannot determine its output file ({e})")
            d = len(Path(rel).parts) - 1
            depths.add({0: "zero", 1: "one"}.get(d, "other"))
        if len(depths) != 1:
            raise LookupError(f"template {h}: pages at different depths {depths}")
        out.append((h, depths.pop()))
    return {"graph_parent": parent_segs, "graph_vis_gate": vis_gate, "graph_bound_gate": bound_gate, "graph_foreign": foreign,
            "graph_hosts": out, "graph_macro_templates": sorted(macro_only)}


def lpieces(ps) -> str:
    return llist(("Assets.Piece.lit " if k == "lit" else "Assets.Piece.dyn ") + lstr(v) for k, v in ps)


def show_pieces(ps) -> str:
    return "".join(v if k == "lit" else "{" + v + "}" for k, v in ps)


# ----------------------------------------------------------------- main

def extract(repo: Path | None = None) -> dict:
    repo = repo or common.REPO
    common.import_ford()
    page_map, list_conds, out_dirs = extract_output(repo)
    parts, pre = extract_project(repo)
    sfd = extract_sourceform(repo)
    nav = extract_templates(repo)
    vis = extract_visible(repo, page_map, parts)
    vis.update(extract_readmore(repo))
    vis.update(extract_relurl(repo))
    vis.update(extract_pagecopy(repo))
    vis.update(extract_mdreset(repo))
    vis.update(extract_graphurl(repo))
    vis["asset_writes"] = extract_asset_writes(repo)
    vis["asset_links"] = extract_asset_links(repo, nav)
    vis["aliases"], page_tree_write = extract_aliases(repo)
    vis["asset_writes"].append(page_tree_write)
    return dict(page_map=page_map, list_conds=list_conds, out_dirs=out_dirs, allfiles=parts, main_pre=pre, nav=nav, **sfd, **vis)


def to_lean(d: dict) -> str:
    L = ["/- GENERATED by translate/c09.py from ford/output.py, ford/sourceform.py, ford/fortran_project.py, ford/utils.py, ford/settings.py,",
         "   ford/__init__.py, ford/templates/base.html, ford/templates/index.html - do not edit -/",
         "import FordModel.Nav", "import FordModel.Url", "import FordModel.StrLink", "import FordModel.ReadMore", "import FordModel.Relurl",
         "import FordModel.Assets", "import FordModel.Footnotes", "import FordModel.Memo", "import FordModel.GraphUrl",
         "namespace Ford.Generated.C09",
         "open Ford Ford.Nav Ford.Url", ""]
    L.append("def navTables : Nav.Tables := {")
    L.append("  listPageConds := [")
    L += ["    (%s, %s)%s  -- %s" % (lstr(p), lcond(c), "," if i < len(d["list_conds"]) - 1 else "", f"{cls} {p}")
          for i, (p, c, cls) in enumerate(d["list_conds"])]
    L.append("  ],")
    L.append("  pageMap := [")
    L += ["    (%s, %s)%s  -- %s" % (lstr(l), lcond(c), "," if i < len(d["page_map"]) - 1 else "", f"{l} -> {cls}")
          for i, (l, c, cls) in enumerate(d["page_map"])]
    L.append("  ],")
    L.append("  allfilesParts := %s," % llist(lstr(x) for x in d["allfiles"]))
    L.append("  navConds := [")
    for i, (tpl, label, tgt, c) in enumerate(d["nav"]):
        t = f"(Target.list {lstr(tgt[1])})" if tgt[0] == "list" else f"(Target.first {lstr(tgt[1])})"
        L.append("    { tpl := %s, label := %s, target := %s,\n      cond := %s }%s  -- %s: %s -> %s" % (
            lstr(tpl), lstr(label), t, lcond(c), "," if i < len(d["nav"]) - 1 else "", tpl, label, tgt))
    L.append("  ],")
    L.append("  mainPre := %s" % lcond(d["main_pre"]))
    L.append("}")
    L.append("")
    L.append("def urlTables : Url.Tables := {")
    L.append("  mro := [")
    L += ["    (%s, %s)%s  -- %s" % (lstr(n), llist(lstr(c) for c in ch), "," if i < len(d["mro"]) - 1 else "", n)
          for i, (n, ch) in enumerate(d["mro"])]
    L.append("  ],")
    L.append("  objOf := [")
    L += ["    (%s, %s)%s  -- %s: %s" % (lstr(n), lstr(o), "," if i < len(d["obj_of"]) - 1 else "", n, o)
          for i, (n, o) in enumerate(d["obj_of"])]
    L.append("  ],")
    for key, field in (("dir_self", "dirSelf"), ("dir_child", "dirChild"), ("dir_parent", "dirParent"), ("anchor_classes", "anchorClasses")):
        L.append("  %s := %s,  -- %s" % (field, llist(lstr(x) for x in d[key]), ", ".join(d[key])))
    L.append("  ifaceClass := %s," % lstr(d["iface_class"]))
    L.append("  overrides := [")
    for i, (n, kind, arg) in enumerate(d["overrides"]):
        ov = {"const": f"Override.const {lstr(arg or '')}", "ifIfaceProc": f"Override.ifIfaceProc {lstr(arg or '')}", "ifNamed": "Override.ifNamed"}[kind]
        L.append("    (%s, %s)%s  -- %s: %s %s" % (lstr(n), ov, "," if i < len(d["overrides"]) - 1 else "", n, kind, arg or ""))
    L.append("  ],")
    L.append("  outDirs := %s  -- %s" % (llist(lstr(x) for x in d["out_dirs"]), ", ".join(d["out_dirs"])))
    L.append("}")
    L.append("")
    L.append("def visTables : StrLink.Tables := {")
    L.append("  visInit := [")
    L += ["    (%s, %s)%s  -- %s: %s" % (lstr(n), lcond(c), "," if i < len(d["vis_init"]) - 1 else "", n, src)
          for i, (n, c, src) in enumerate(d["vis_init"])]
    L.append("  ],")
    L.append("  listClass := [")
    L += ["    (%s, %s)%s  -- project.%s: List[%s]" % (lstr(l), lstr(c), "," if i < len(d["list_class"]) - 1 else "", l, c)
          for i, (l, c) in enumerate(d["list_class"])]
    L.append("  ],")
    L.append("  defaultVisible := %s" % ("true" if d["default_visible"] else "false"))
    L.append("}")
    L += ["", "/-- FortranBase.markdown: value of meta.summary in the PARA_CAPTURE_RE branch; guard of the Read-more link -/",
          "def summaryTables : ReadMore.Tables := { rule := ReadMore.CutRule.%s, linkNeedsUrl := %s }" % (
              d["summary_rule"], "true" if d["link_needs_url"] else "false"),
          "", "/-- ford.utils.normalise_path; what ford.output.relative_url searches for in the link text -/",
          "def relurlTables : Relurl.Tables := { normalise := Relurl.NormMode.%s, relurlResolves := %s }" % (
              d["normalise_mode"], "true" if d["relurl_resolves"] else "false")]
    L += ["", "/-- every `{{ project_url }}/<path>` URL of the templates that is not a navigation link, and every file / tree /",
          "    constant page that Documentation.writeout puts below the output directory -/",
          "def assetTables : Assets.Tables := {", "  links := ["]
    for i, (tpl, tag, attr, ps, c) in enumerate(d["asset_links"]):
        L.append("    { tpl := %s, tag := %s, attr := %s, path := %s,\n      cond := %s }%s  -- %s: <%s %s> %s" % (
            lstr(tpl), lstr(tag), lstr(attr), lpieces(ps), lcond(c), "," if i < len(d["asset_links"]) - 1 else "", tpl, tag, attr, show_pieces(ps)))
    L += ["  ],", "  writes := ["]
    for i, (ps, kind, c, src) in enumerate(d["asset_writes"]):
        k = {"file": "Assets.Src.file", "page": "Assets.Src.page", "user": "Assets.Src.user"}.get(kind[0])
        if k is None:
            k = "(Assets.Src.shipped %s)" % llist(lstr(f) for f in kind[1])
        L.append("    { dest := %s, src := %s,\n      cond := %s }%s  -- %s" % (
            lpieces(ps), k, lcond(c), "," if i < len(d["asset_writes"]) - 1 else "", src.replace("\n", " ")[:110]))
    L += ["  ],", "  aliases := ["]
    L += ["    (%s, %s)%s  -- |%s| -> %s" % (lstr(a), lpieces(ps), "," if i < len(d["aliases"]) - 1 else "", a, show_pieces(ps) or "(root)")
          for i, (a, ps) in enumerate(d["aliases"])]
    L += ["  ]", "}", "",
          "/-- PagetreePage.writeout: the guards of the loops over `self.obj.copy_subdir` and `self.obj.files`;",
          "    `names`: how PageNode.url / PagetreePage.outfile / PagetreePage.loc name the HTML file of a static page (probed) -/",
          "def pageTables : Assets.PageTables := { copyGuard := Assets.CopyGuard.%s, filesGuard := Assets.CopyGuard.%s, "
          "names := ⟨PageName.Naming.%s, PageName.Naming.%s, PageName.Naming.%s⟩ }  -- names: url, outfile, loc" % (
              d["copy_guard"], d["files_guard"], d["page_names"]["url"], d["page_names"]["outfile"], d["page_names"]["loc"])]
    L += ["", "/-- the conversion sites that start from a reset Markdown converter (probed on the real pipeline) -/",
          "def mdTables : Footnotes.Tables := { resets := %s, resetsFirst := %s }" % (
              llist("Footnotes.Site." + x for x in d["md_resets"]), llist("Footnotes.Site." + x for x in d["md_resets_first"])),
          "", "/-- what the registered `relurl` filter reuses an earlier result by (probed on the real callable) -/",
          "def memoKey : Memo.Key := Memo.Key.%s" % d["memo_key"]]
    lb = lambda b: "true" if b else "false"
    L += ["", "/-- graph node URLs: the prefix of a relative run, the gates of BaseNode (probed), the templates that print a graph",
          "    with the depth of the pages rendered through them -/",
          "def graphTables : GraphUrl.Tables := {\n  parentDir := %s, visibleGate := %s, boundGate := %s, keepsForeign := %s," % (
              llist(lstr(x) for x in d["graph_parent"]), lb(d["graph_vis_gate"]), lb(d["graph_bound_gate"]), lb(d["graph_foreign"])),
          "  hosts := ["]
    L += ["    (%s, GraphUrl.Depth.%s)%s  -- %s" % (lstr(h), dp, "," if i < len(d["graph_hosts"]) - 1 else "", h)
          for i, (h, dp) in enumerate(d["graph_hosts"])]
    L += ["  ] }"]
    L += ["", "end Ford.Generated.C09", ""]
    return "\n".join(L)


_CACHE: dict = {}


def extract_cached() -> dict:
    """the tables of the last `translate()` / `extract()` of this process (the probes run FORD once: not twice per check)"""
    if "d" not in _CACHE:
        _CACHE["d"] = extract()
    return _CACHE["d"]


def translate():
    d = extract()
    _CACHE["d"] = d
    common.write_if_changed(common.LEAN / "FordModel" / "Generated" / "C09.lean", to_lean(d))
    return d


if __name__ == "__main__":
    import json

    d = translate()
    print(json.dumps({k: v for k, v in d.items() if k not in ("mro",)}, indent=1, default=str)[:6000])
