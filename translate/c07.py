"""C07 translator: regenerates lean/FordModel/Generated/C07.lean from what the working tree DOES.

Every table but one is obtained by PROBING the real code: small hand-written Fortran witness
projects are parsed and correlated by the implementation under test (`Project(settings)`,
`Project.correlate()`, in-process) and the decision the code took is read off the objects a user of
FORD's object tree sees (reference slots, lists of declared entities).  Nothing is read from the
spelling of the source: renamed locals, hoisted sub-expressions, `enumerate` instead of indexing, a
block moved into a helper function, a loop over a table of names ... leave every table as it is; a
change of behaviour on a witness changes a table and with it a theorem statement.

  correlateRecursion / typesBeforeRecursion
        the order in which `FortranCodeUnit.correlate` correlates the entities a unit holds (each
        object's `correlate` is wrapped and logs the list it was found in)
  hostTables
        how the host's name tables reach a nested unit: "alias" (the very dict object), "copy" (a
        dict of its own: host entries + local ones, the host's dict untouched), and for all_procs
        which of a host procedure and a same-named internal procedure the nested unit sees
        ("update" = the host's, "merge-local-over-host" = its own)
  slotLookups / lookupsIgnoreCase
        per kind of reference the name spaces it is looked up in, in PRIORITY order: the witness
        module declares the name `zz` in every subset of {derived type, procedure, abstract
        interface, type-bound binding} and refers to `Zz` from every kind of reference slot; the
        winner of each subset is observed, the priority order derived from the 16 outcomes (and
        checked to explain all of them)
  useProbes
        `use m`, `use m, loc => rem`, `use m, only: ...` (7 statements, mixed letter case): which
        entity of the used module every candidate name denotes in the using unit afterwards
  blockFiled / blockNesting
        which kinds of statement inside a BLOCK construct are filed in the enclosing unit, and that
        nested / labelled BLOCKs are counted (the unit closes where it should)
  inheritedGenericShared / inheritedGenericWitness / boundprocsOrder
        whether the copy of a generic binding an extension inherits shares the parent's list of
        specifics, what the parent's generic is linked to after an extension overrode the specific,
        and the order of an extension's `boundprocs` (inherited first)
  submoduleProbes
        a submodule's own declarations vs. its parent's, parent submodule by ancestor-and-name or by
        name alone, visibility of the parent submodule's and the ancestor module's entities

One table is still read with `ast`, but normalised so that only its MEANING is pinned:
  nameTableOps / nameTableSites
        every function of ford/sourceform.py and ford/fortran_project.py that binds, writes into or
        removes from a name table `all_procs` / `all_types` / `all_absinterfaces` of any object:
        (Class.method, table, bind | write | remove) as a SET per site - independent of variable
        names, of `d[k] = v` vs. `d.update(...)`, of the number and order of the statements.  A site
        is a method the framework calls (`correlate`, `_cleanup`, `_initialize`, ...) or a function
        nothing calls; what a HELPER does (any other function / method that is called from within the
        two files) is done by its callers: a table handed to a helper as an argument is followed into
        the helper's parameter, a local name bound to a table (`tbl = self.all_procs`) stands for it,
        `getattr` / `setattr` with a literal name or with the variable of a loop over a literal tuple
        of names count as the attribute access they are.  A table handed to an unknown plain function
        is recorded as `handed to <name>`.

A witness that cannot be built or read raises (tie broken, never a pass).
"""
from __future__ import annotations

import ast
import itertools

from harness import common

# --------------------------------------------------------------------------------------------
# running the implementation on a witness
# --------------------------------------------------------------------------------------------


def _build(files):
    """parse the witness with the implementation under test; returns (project, scratch context)"""
    from harness import c07 as H  # (lazy: harness.c07 imports this module lazily as well)

    ford = common.import_ford()
    ctx = common.scratch_dir("ford-c07-probe-")
    d = ctx.__enter__()
    try:
        project = H.build_ford(ford, d, files)
    except BaseException:
        ctx.__exit__(None, None, None)
        raise
    return project, ctx


def _correlated(files, before=None):
    """-> (project, exception | None).  `before(project)` runs between parsing and correlation."""
    common.import_ford()  # (first: puts the working tree under test in front of any installed ford)
    import ford.fortran_project as fp
    import ford.sourceform as sf

    project, ctx = _build(files)
    try:
        if before is not None:
            before(project)
        warns = (sf.warn, fp.warn)
        sf.warn = fp.warn = lambda *a, **k: None
        try:
            with common.quiet():
                project.correlate()
        except Exception as e:  # e.g. an unknown finaliser / specific procedure
            return project, e
        finally:
            sf.warn, fp.warn = warns
        return project, None
    finally:
        ctx.__exit__(None, None, None)


def _by(lst, name, what="entity"):
    for o in lst:
        if str(getattr(o, "name", "")).lower() == name.lower():
            return o
    raise LookupError(f"probe: {what} `{name}` is missing from FORD's object tree")


def _unit(project, name):
    for lst in (project.modules, project.submodules, project.programs, project.procedures):
        for o in lst:
            if o.name.lower() == name.lower():
                return o
    raise LookupError(f"probe: program unit `{name}` is missing from FORD's object tree")


# --------------------------------------------------------------------------------------------
# recursion order of FortranCodeUnit.correlate
# --------------------------------------------------------------------------------------------

_REC_SRC = """
module q0
  implicit none
  type tq
  end type tq
  abstract interface
    subroutine aq()
    end subroutine aq
  end interface
  interface iq
    subroutine bq()
    end subroutine bq
  end interface iq
  integer :: vq
  integer :: wq
  common /cq/ wq
  namelist /nq/ vq
contains
  subroutine sq()
  end subroutine sq
  function fq()
    integer :: fq
  end function fq
end module q0
"""

_REC_LISTS = ("types", "functions", "subroutines", "interfaces", "absinterfaces", "variables", "common", "namelists")


def probe_recursion():
    order = []

    def wrap(project):
        m = _unit(project, "q0")
        for kind in _REC_LISTS:
            objs = list(getattr(m, kind, []))
            if not objs and kind not in ("common", "namelists"):
                raise LookupError(f"probe: the witness module has no `{kind}`")
            for o in objs:
                def logged(project_, _k=kind, _orig=o.correlate):
                    order.append(_k)
                    return _orig(project_)
                o.correlate = logged  # instance attribute: found before the method of the class

    _, exc = _correlated({"q.f90": _REC_SRC}, before=wrap)
    if exc is not None:
        raise LookupError(f"probe: correlate() failed on the recursion witness: {type(exc).__name__}: {exc}")
    first = list(dict.fromkeys(order))
    if "types" not in first or "functions" not in first:
        raise LookupError("probe: the derived types / functions of the witness module were never correlated")
    rec = [k for k in first if k != "types"]
    return {"recursion": rec, "types_before": first.index("types") == 0}


# --------------------------------------------------------------------------------------------
# host association of the three name tables
# --------------------------------------------------------------------------------------------

_HOST_SRC = """
module h0
  implicit none
  type ta
  end type ta
  abstract interface
    subroutine pc()
    end subroutine pc
  end interface
contains
  subroutine pa()
  end subroutine pa
  subroutine pb()
    type tb
    end type tb
    abstract interface
      subroutine pd()
      end subroutine pd
    end interface
  contains
    subroutine pa()
    end subroutine pa
  end subroutine pb
end module h0
"""


def probe_host():
    got = {}

    def grab(project):
        # (the internal procedures are taken off the unit's lists at the end of Project.correlate)
        pb_ = _by(_unit(project, "h0").subroutines, "pb", "module procedure")
        got["own_pa"] = _by(pb_.subroutines, "pa", "internal procedure")
        got["pd"] = _by(pb_.absinterfaces, "pd", "abstract interface")
        got["tb"] = _by(pb_.types, "tb", "type")

    project, exc = _correlated({"h.f90": _HOST_SRC}, before=grab)
    if exc is not None:
        raise LookupError(f"probe: correlate() failed on the host-association witness: {type(exc).__name__}: {exc}")
    m = _unit(project, "h0")
    pb = _by(m.subroutines, "pb", "module procedure")
    host_pa = _by(m.subroutines, "pa", "module procedure")
    own_pa = got["own_pa"]
    out = {}
    # all_procs: which `pa` the nested unit sees
    if pb.all_procs is m.all_procs:
        out["all_procs"] = "alias"
    elif pb.all_procs.get("pa") is host_pa:
        out["all_procs"] = "update"
    elif pb.all_procs.get("pa") is own_pa and pb.all_procs.get("pb") is pb:
        out["all_procs"] = "merge-local-over-host"
    else:
        out["all_procs"] = "other: the nested unit sees neither `pa` / not its host's procedures"
    for attr, host_name, host_list, own_name in (
            ("all_absinterfaces", "pc", m.absinterfaces, "pd"),
            ("all_types", "ta", m.types, "tb")):
        child, parent = getattr(pb, attr), getattr(m, attr)
        h, o = _by(host_list, host_name), got[own_name]
        if child is parent:
            out[attr] = "alias"
        elif child.get(host_name) is h and child.get(own_name) is o and own_name not in parent:
            out[attr] = "copy"
        else:
            out[attr] = "other: neither the host's dict nor host entries + local ones"
    return out


def code_variant():
    """'11' / '00' / ... (alias, hostOverLocal) as probed, or None when the behaviour is neither."""
    x = probe_host()
    if x["all_types"] != x["all_absinterfaces"]:
        return None
    alias = {"alias": "1", "copy": "0"}.get(x["all_types"])
    hol = {"update": "1", "merge-local-over-host": "0"}.get(x["all_procs"])
    if alias is None or hol is None:
        return None
    return alias + hol


# --------------------------------------------------------------------------------------------
# which name spaces each kind of reference is looked up in, and in which order
# --------------------------------------------------------------------------------------------

_SPACES = ("all_types", "all_procs", "all_absinterfaces", "bindings")

_TY = "  type zz\n  end type zz\n"
_AB = "  abstract interface\n    subroutine zz()\n    end subroutine zz\n  end interface\n"
_PR = "  subroutine zz()\n  end subroutine zz\n"
_BD = "    procedure, nopass :: zz => yy\n"


def _lookup_files(S, ref):
    """the four witness modules for the subset S of name spaces that declare `zz`; `ref` is the
    spelling of the references"""
    ty, pr, ab, bd = ("all_types" in S), ("all_procs" in S), ("all_absinterfaces" in S), ("bindings" in S)
    k0 = ("module k0\n  implicit none\n" + (_TY if ty else "") + (_AB if ab else "")
          + f"  type, abstract, extends({ref}) :: te\n"
          + f"    type({ref}), pointer :: c1\n"
          + f"    procedure({ref}), pointer, nopass :: c2\n"
          + "  contains\n"
          + f"    procedure, nopass :: b1 => {ref}\n"
          + f"    procedure({ref}), deferred, nopass :: b2\n"
          + (_BD if bd else "")
          + f"    generic :: g1 => {ref}\n"
          + "  end type te\n"
          + "  type, abstract :: tf\n  contains\n"
          + f"    procedure(yy), deferred, nopass :: {ref}\n"
          + "  end type tf\n"
          + f"  type({ref}), pointer :: v1\n"
          + f"  class({ref}), pointer :: v2\n"
          + f"  procedure({ref}), pointer :: v3\n"
          + "contains\n" + (_PR if pr else "")
          + "  subroutine s1(x1)\n"
          + f"    type({ref}) :: x1\n"
          + "  end subroutine s1\n"
          + "  function f1() result(r1)\n"
          + f"    procedure({ref}), pointer :: r1\n"
          + "  end function f1\n"
          + "end module k0\n")
    k1 = ("module k1\n  implicit none\n" + (_TY if ty else "") + (_AB if ab else "")
          + "  type tg\n  contains\n" + (_BD if bd else "")
          + f"    final :: {ref}\n"
          + "  end type tg\ncontains\n" + (_PR if pr else "") + "end module k1\n")
    # the constructor of a type is looked up under the type's own name: the type is `zz` itself
    k2 = ("module k2\n  implicit none\n" + (_AB if ab else "")
          + f"  type {ref}\n" + ("  contains\n" + _BD if bd else "") + f"  end type {ref}\n"
          + ("  interface zz\n    module procedure mk\n  end interface zz\n" if pr else "")
          + "contains\n  function mk()\n    integer :: mk\n  end function mk\nend module k2\n")
    k3 = ("module k3\n  implicit none\n" + (_TY if ty else "") + (_AB if ab else "")
          + ("  type th\n  contains\n" + _BD + "  end type th\n" if bd else "")
          + f"  interface gi\n    module procedure {ref}\n  end interface gi\n"
          + "contains\n" + (_PR if pr else "") + "end module k3\n")
    return k0, k1, k2, k3


def _space_of(o, spaces):
    """which declared `zz` the object stored in a slot is"""
    if o is None or isinstance(o, (str, bool)):
        return None
    for sp, cand in spaces.items():
        if cand is not None and (o is cand or getattr(o, "procedure", None) is cand or getattr(cand, "procedure", None) is o):
            return sp
    return f"other:{type(o).__name__}"


def _find(lst, name):
    for o in lst:
        if str(getattr(o, "name", "")).lower() == name:
            return o
    return None


def _lookup_outcomes(S, ref):
    """{reference kind: name space of the object FORD stored | None (text) | 'raise'}"""
    k0, k1, k2, k3 = _lookup_files(S, ref)
    out = {}
    # --- k0: every slot that cannot make correlate() fail
    project, exc = _correlated({"k0.f90": k0})
    if exc is not None:
        raise LookupError(f"probe: correlate() failed on the lookup witness {sorted(S)}: {type(exc).__name__}: {exc}")
    m = _unit(project, "k0")
    te = _by(m.types, "te", "type")
    tf = _by(m.types, "tf", "type")
    sp = {"all_types": _find(m.types, "zz"), "all_procs": _find(m.subroutines, "zz"),
          "all_absinterfaces": _find(m.absinterfaces, "zz"),
          "bindings": next((b for b in te.boundprocs if b.name.lower() == "zz" and getattr(b, "parent", None) is te), None)}
    for k in S:
        if sp[k] is None:
            raise LookupError(f"probe: the `zz` declared as {k} is missing from FORD's object tree")
    comp = {v.name.lower(): v for v in getattr(te, "local_variables", te.variables)}
    out["parent type"] = _space_of(te.extends, sp)
    out["component type"] = _space_of(comp["c1"].proto[0], sp)
    out["component procedure"] = _space_of(comp["c2"].proto[0], sp)
    out["binding target"] = _space_of(_by(te.boundprocs, "b1", "binding").bindings[0], sp)
    out["deferred binding interface"] = _space_of(_by(te.boundprocs, "b2", "binding").proto, sp)
    out["generic binding specific"] = _space_of(_by(te.boundprocs, "g1", "binding").bindings[0], sp)
    dname = _by(tf.boundprocs, "zz", "deferred binding")
    out["deferred binding name"] = _space_of(dname.bindings[0] if dname.bindings else None, sp)
    out["variable type"] = _space_of(_by(m.variables, "v1", "variable").proto[0], sp)
    out["variable class"] = _space_of(_by(m.variables, "v2", "variable").proto[0], sp)
    out["variable procedure"] = _space_of(_by(m.variables, "v3", "variable").proto[0], sp)
    out["argument type"] = _space_of(_by(m.subroutines, "s1", "procedure").args[0].proto[0], sp)
    out["result procedure"] = _space_of(_by(m.functions, "f1", "procedure").retvar.proto[0], sp)
    # --- k1: finaliser (FORD may fail on an unknown one)
    project, exc = _correlated({"k1.f90": k1})
    m = _unit(project, "k1")
    tg = _by(m.types, "tg", "type")
    sp = {"all_types": _find(m.types, "zz"), "all_procs": _find(m.subroutines, "zz"),
          "all_absinterfaces": _find(m.absinterfaces, "zz"), "bindings": _find(tg.boundprocs, "zz")}
    if not tg.finalprocs:
        raise LookupError("probe: the finaliser of the witness type is missing from FORD's object tree")
    got = _space_of(tg.finalprocs[0].procedure, sp)
    out["finaliser"] = got if (exc is None or got is not None) else "raise"
    # --- k2: constructor
    project, exc = _correlated({"k2.f90": k2})
    if exc is not None:
        raise LookupError(f"probe: correlate() failed on the constructor witness {sorted(S)}: {type(exc).__name__}: {exc}")
    m = _unit(project, "k2")
    tz = _by(m.types, "zz", "type")
    sp = {"all_types": tz, "all_procs": next((i for i in m.interfaces if i.name.lower() == "zz"), None),
          "all_absinterfaces": _find(m.absinterfaces, "zz"), "bindings": _find(tz.boundprocs, "zz")}
    out["constructor"] = _space_of(tz.constructor, sp)
    # --- k3: specific procedure of a generic interface (FORD raises on an unknown one)
    project, exc = _correlated({"k3.f90": k3})
    m = _unit(project, "k3")
    gi = _by(m.interfaces, "gi", "generic interface")
    th = _find(m.types, "th")
    sp = {"all_types": _find(m.types, "zz"), "all_procs": _find(m.subroutines, "zz"),
          "all_absinterfaces": _find(m.absinterfaces, "zz"), "bindings": _find(th.boundprocs, "zz") if th else None}
    got = _space_of(gi.modprocs[0].procedure, sp) if gi.modprocs else None
    out["generic interface specific"] = got if (exc is None or got is not None) else "raise"
    return out


_REF_KINDS = ("parent type", "component type", "component procedure", "binding target", "deferred binding interface",
              "generic binding specific", "deferred binding name", "variable type", "variable class",
              "variable procedure", "argument type", "result procedure", "finaliser", "constructor",
              "generic interface specific")

_LOOKUPS = None


def probe_lookups():
    """{reference kind: [name spaces in priority order]}, references spelled in another letter case
    than the declarations; plus whether a reference spelled exactly like the declaration gives the same."""
    global _LOOKUPS
    if _LOOKUPS is not None:
        return _LOOKUPS
    subsets = [frozenset(c) for n in range(len(_SPACES) + 1) for c in itertools.combinations(_SPACES, n)]
    outcomes = {S: _lookup_outcomes(S, "Zz") for S in subsets}
    prio = {}
    for kind in _REF_KINDS:
        S = frozenset(_SPACES)
        if kind == "constructor":
            # (the type itself always exists)
            pass
        order = []
        while True:
            w = outcomes[S][kind]
            if w is None or w == "raise":
                break
            if w not in S:
                raise LookupError(f"probe: {kind}: FORD stored {w} although only {sorted(S)} declare the name")
            order.append(w)
            S = S - {w}
        # the priority order must explain all 16 outcomes
        for T in subsets:
            want = next((x for x in order if x in T), None)
            got = outcomes[T][kind]
            got = None if got == "raise" else got
            if got != want:
                raise LookupError(f"probe: {kind}: the look-up is not a priority order over the name spaces "
                                  f"(declared {sorted(T)}: FORD stores {got}, order {order} gives {want})")
        prio[kind] = order
    same = _lookup_outcomes(frozenset(_SPACES), "zz")
    full = outcomes[frozenset(_SPACES)]
    ignore_case = all((None if same[k] == "raise" else same[k]) == (None if full[k] == "raise" else full[k]) for k in _REF_KINDS)
    _LOOKUPS = {"priority": prio, "ignore_case": ignore_case,
                "unknown_raises": sorted(k for k in _REF_KINDS if outcomes[frozenset()][k] == "raise")}
    return _LOOKUPS


# --------------------------------------------------------------------------------------------
# USE statements
# --------------------------------------------------------------------------------------------

# entity numbers of the public entities of the used module (the Lean theorem uses the same)
USE_TYPES = [("ta", 1), ("tb", 2), ("tc", 3)]
USE_PROCS = [("pa", 4), ("pb", 5)]
USE_ABS = [("aa", 6)]
# (only, [(local, remote)]) and the spelling of the statement
USE_FORMS = [
    (False, [], "use u0"),
    (False, [("tx", "ta")], "use u0, tx => ta"),
    (False, [("tx", "ta"), ("px", "pa"), ("ax", "aa")], "use u0, tx => ta, px => pa, ax => aa"),
    (True, [("ta", "ta"), ("pa", "pa")], "use u0, only: ta, pa"),
    (True, [("tx", "ta"), ("tb", "tb"), ("px", "pa")], "use u0, only: tx => ta, tb, px => pa"),
    (True, [("tx", "ta"), ("px", "pb")], "USE u0, ONLY: Tx => TA, PX=>Pb"),
    (True, [("ax", "aa"), ("tc", "tc")], "use u0 , only : ax => aa , tc"),
]
USE_TYPE_NAMES = ["ta", "tb", "tc", "tx"]
USE_PROC_NAMES = ["pa", "pb", "px", "aa", "ax"]


def probe_use():
    """[(only, items, [(is_type, name, entity number | None)])]"""
    src = ["module u0", "  implicit none"]
    for n, _ in USE_TYPES:
        src += [f"  type {n}", f"  end type {n}"]
    for n, _ in USE_ABS:
        src += ["  abstract interface", f"    subroutine {n}()", f"    end subroutine {n}", "  end interface"]
    src += ["contains"]
    for n, _ in USE_PROCS:
        src += [f"  subroutine {n}()", f"  end subroutine {n}"]
    src += ["end module u0"]
    for k, (_, _, stmt) in enumerate(USE_FORMS):
        src += [f"module w{k}", f"  {stmt}", "  implicit none"]
        for j, n in enumerate(USE_TYPE_NAMES):
            src += [f"  type({n}), pointer :: vt{j}"]
        for j, n in enumerate(USE_PROC_NAMES):
            src += [f"  procedure({n}), pointer :: vp{j}"]
        src += [f"end module w{k}"]
    project, exc = _correlated({"u.f90": "\n".join(src) + "\n"})
    if exc is not None:
        raise LookupError(f"probe: correlate() failed on the USE witness: {type(exc).__name__}: {exc}")
    u0 = _unit(project, "u0")
    num = {}
    for n, e in USE_TYPES:
        num[id(_by(u0.types, n))] = e
    for n, e in USE_PROCS:
        num[id(_by(u0.subroutines, n))] = e
    for n, e in USE_ABS:
        num[id(_by(u0.absinterfaces, n))] = e
    out = []
    for k, (only, items, _) in enumerate(USE_FORMS):
        w = _unit(project, f"w{k}")
        res = []
        for is_type, names, pre in ((True, USE_TYPE_NAMES, "vt"), (False, USE_PROC_NAMES, "vp")):
            for j, n in enumerate(names):
                o = _by(w.variables, f"{pre}{j}", "variable").proto[0]
                if o is None or isinstance(o, str):
                    res.append((is_type, n, None))
                elif id(o) in num:
                    res.append((is_type, n, num[id(o)]))
                else:
                    raise LookupError(f"probe: `{n}` after `{USE_FORMS[k][2]}` is linked to an object that u0 does not declare")
        out.append((only, items, res))
    return out


# --------------------------------------------------------------------------------------------
# BLOCK constructs
# --------------------------------------------------------------------------------------------

_BLOCK_SRC = """
module u1
  implicit none
  type tu
  end type tu
end module u1
module b0
  implicit none
contains
  subroutine s1(x1)
    integer :: x1
    type(tu), pointer :: v2
    block
      use u1
      type tq
      end type tq
      interface
        subroutine pq()
        end subroutine pq
      end interface
      abstract interface
        subroutine aq()
        end subroutine aq
      end interface
      enum, bind(c)
        enumerator :: eq = 1
      end enum
      integer :: wq
      target :: x1
    end block
  end subroutine s1
end module b0
"""

# (a file of its own: an implementation that loses count of the BLOCKs fails to parse it)
_NEST_SRC = """
module b1
  implicit none
contains
  subroutine s2()
    outer: block
      block
        integer :: wi
      end block
      type tn
      end type tn
    end block outer
  contains
    subroutine s3()
    end subroutine s3
  end subroutine s2
  subroutine s4()
  end subroutine s4
end module b1
"""


def probe_blocks():
    got = {}

    def grab(project):
        # the object tree as parsed (local entities of procedures are taken off the lists at the end
        # of Project.correlate)
        b0 = _unit(project, "b0")
        s1 = _by(b0.subroutines, "s1", "the procedure with the BLOCK construct")
        got["v2"] = _by(s1.variables, "v2", "variable")
        x1 = s1.args[0]
        got["filed"] = [
            ("type", any(t.name.lower() == "tq" for t in s1.types)),
            ("interface", any(i.name.lower() == "pq" for i in s1.interfaces)),
            ("absinterface", any(i.name.lower() == "aq" for i in s1.absinterfaces)),
            ("enum", bool(getattr(s1, "enums", []))),
            ("variable", any(v.name.lower() == "wq" for v in s1.variables)),
            ("attribute", any("target" in str(a).lower() for a in getattr(x1, "attribs", []))),
        ]
        b1 = next((m for m in project.modules if m.name.lower() == "b1"), None)
        if b1 is not None:
            got["names"] = [s.name.lower() for s in b1.subroutines]
            s2 = next((s for s in b1.subroutines if s.name.lower() == "s2"), None)
            if s2 is not None:
                got["tn"] = any(t.name.lower() == "tn" for t in s2.types) or any(v.name.lower() == "wi" for v in s2.variables)
                got["s2kids"] = [k.name.lower() for k in s2.subroutines]

    project, exc = _correlated({"b0.f90": _BLOCK_SRC, "b1.f90": _NEST_SRC}, before=grab)
    if exc is not None:
        raise LookupError(f"probe: correlate() failed on the BLOCK witness: {type(exc).__name__}: {exc}")
    u1 = _unit(project, "u1")
    filed = [("use", got["v2"].proto[0] is _by(u1.types, "tu"))] + got["filed"]
    nesting = [("a unit with nested and labelled BLOCK constructs closes at its own END statement",
                got.get("names") == ["s2", "s4"]),
               ("a declaration after the END of a nested BLOCK is still inside the outer BLOCK",
                "tn" in got and not got["tn"]),
               ("the internal procedure after the BLOCKs belongs to the unit", got.get("s2kids") == ["s3"])]
    return {"filed": filed, "nesting": nesting}


def block_variant():
    """'1' = what a USE statement inside a BLOCK makes accessible is visible in the enclosing unit,
    '0' = not; as probed."""
    return "1" if dict(probe_blocks()["filed"])["use"] else "0"


# --------------------------------------------------------------------------------------------
# inherited generic bindings
# --------------------------------------------------------------------------------------------

_GENERIC_SRC = """
module g0
  implicit none
  type ta
  contains
    procedure, nopass :: pa => pb
    procedure, nopass :: pz => pb
    generic :: g1 => pa
  end type ta
  type, extends(ta) :: tb
  contains
    procedure, nopass :: pa => pc
  end type tb
contains
  subroutine pb()
  end subroutine pb
  subroutine pc()
  end subroutine pc
end module g0
"""


def probe_generic():
    project, exc = _correlated({"g.f90": _GENERIC_SRC})
    if exc is not None:
        raise LookupError(f"probe: correlate() failed on the generic-binding witness: {type(exc).__name__}: {exc}")
    m = _unit(project, "g0")
    ta, tb = _by(m.types, "ta", "type"), _by(m.types, "tb", "type")
    g_ta = next((b for b in ta.boundprocs if b.name.lower() == "g1"), None)
    g_tb = next((b for b in tb.boundprocs if b.name.lower() == "g1"), None)
    if g_ta is None or g_tb is None:
        raise LookupError("probe: the generic binding / its inherited copy is missing from FORD's object tree")
    pa_ta = next(b for b in ta.boundprocs if b.name.lower() == "pa")
    pa_tb = next(b for b in tb.boundprocs if b.name.lower() == "pa" and not getattr(b, "generic", False))
    spec = g_ta.bindings[0] if g_ta.bindings else None
    witness = "ta" if spec is pa_ta else "tb" if spec is pa_tb else "other"
    spec_b = g_tb.bindings[0] if g_tb.bindings else None
    witness_b = "ta" if spec_b is pa_ta else "tb" if spec_b is pa_tb else "other"
    return {"shared": g_ta.bindings is g_tb.bindings, "witness": witness, "witness_ext": witness_b,
            "order": [b.name.lower() for b in tb.boundprocs]}


def generic_variant():
    """'1' = the copy of a generic binding that an extension inherits keeps the parent's list of
    specifics, '0' = it has a list of its own; as probed."""
    return "1" if probe_generic()["shared"] else "0"


# --------------------------------------------------------------------------------------------
# submodules
# --------------------------------------------------------------------------------------------

_SUB_SRC = """
module m0
  implicit none
  type ta
  end type ta
  type tm
  end type tm
  interface
    module subroutine px()
    end subroutine px
  end interface
contains
  subroutine pc()
  end subroutine pc
end module m0
submodule (m0) s1
  implicit none
  type ta
  end type ta
  type tl
  end type tl
  interface
    module subroutine px()
    end subroutine px
  end interface
  type(ta), pointer :: v1
  procedure(pc), pointer :: v2
contains
  subroutine pc()
  end subroutine pc
end submodule s1
submodule (m0:s1) s2
  implicit none
  type(tl), pointer :: v4
  type(tm), pointer :: v5
contains
  module subroutine px()
  end subroutine px
end submodule s2
module m1
  implicit none
end module m1
submodule (m1) s1
  implicit none
end submodule s1
submodule (m1:s1) s3
  implicit none
  type(ta), pointer :: v3
end submodule s3
"""


def probe_sub():
    got = {}

    def grab(project):
        # (the separate module procedures are taken off `subroutines` at the end of the unit's correlate)
        for s in project.submodules:
            if s.name.lower() == "s2":
                got["px"] = _by(s.subroutines, "px", "separate module procedure")

    project, exc = _correlated({"s.f90": _SUB_SRC}, before=grab)
    if "px" not in got:
        raise LookupError("probe: submodule s2 is missing from FORD's object tree")
    if exc is not None:
        raise LookupError(f"probe: correlate() failed on the submodule witness: {type(exc).__name__}: {exc}")

    def sub(name, anc):
        for s in project.submodules:
            a = s.ancestor_module
            if s.name.lower() == name and str(getattr(a, "name", a)).lower() == anc:
                return s
        raise LookupError(f"probe: submodule {name} of {anc} is missing from FORD's object tree")

    m0 = _unit(project, "m0")
    s1, s2, s1b, s3 = sub("s1", "m0"), sub("s2", "m0"), sub("s1", "m1"), sub("s3", "m1")

    def who(o, cands):
        if o is None or isinstance(o, str):
            return "text"
        for label, c in cands:
            if o is c or getattr(c, "procedure", None) is o or getattr(o, "procedure", None) is c:
                return label
        return "other"

    v = {x.name.lower(): x for s in (s1, s2, s3) for x in s.variables}
    out = [
        ("a type of the submodule and a same-named type of its ancestor module",
         who(v["v1"].proto[0], [("local", _by(s1.types, "ta")), ("ancestor", _by(m0.types, "ta"))])),
        ("a procedure of the submodule and a same-named procedure of its ancestor module",
         who(v["v2"].proto[0], [("local", _by(s1.subroutines, "pc")), ("ancestor", _by(m0.subroutines, "pc"))])),
        ("parent submodule of `submodule (m1:s1) s3` when m0 has a submodule s1 as well",
         "same ancestor" if s3.parent_submodule is s1b else "by name" if s3.parent_submodule is s1 else "other"),
        ("a name only the other module's submodule s1 can see", who(v["v3"].proto[0], [("linked", _by(m0.types, "ta")),
                                                                                   ("linked", _by(s1.types, "ta"))])),
        ("a type of the parent submodule", who(v["v4"].proto[0], [("linked", _by(s1.types, "tl"))])),
        ("a type of the ancestor module, from a submodule of a submodule", who(v["v5"].proto[0], [("linked", _by(m0.types, "tm"))])),
        ("interface of a separate module procedure whose name both the parent submodule and the ancestor module declare",
         who(got["px"].module, [("parent submodule's", _by(s1.interfaces, "px")), ("ancestor module's", _by(m0.interfaces, "px"))])),
    ]
    return out


def sub_variant():
    """two characters: '1' = the parent's entities overwrite a submodule's own same-named ones / '0' =
    the submodule's own shadow them; '1' = the parent submodule is found by its name alone / '0' = by
    ancestor module and name.  As probed."""
    x = dict(probe_sub())
    a = {"ancestor": "1", "local": "0"}.get(x["a type of the submodule and a same-named type of its ancestor module"])
    a2 = {"ancestor": "1", "local": "0"}.get(x["a procedure of the submodule and a same-named procedure of its ancestor module"])
    b = {"by name": "1", "same ancestor": "0"}.get(x["parent submodule of `submodule (m1:s1) s3` when m0 has a submodule s1 as well"])
    if a is None or a != a2 or b is None:
        raise LookupError("submodule witness: behaviour is neither of the modelled variants")
    return a + b


# --------------------------------------------------------------------------------------------
# every site that edits a name table (ast, normalised)
# --------------------------------------------------------------------------------------------

_TABLES = ("all_procs", "all_types", "all_absinterfaces")
_WRITERS = ("update", "setdefault", "__setitem__", "__ior__")
_REMOVERS = ("pop", "popitem", "clear", "__delitem__")
# the methods FORD's framework calls on every object (a site of its own each); any other function that
# is called from within the two files is a helper: what it does is done by its callers
_ENTRY = ("correlate", "_cleanup", "_initialize", "_common_initialize", "__init__", "prune")
# callables that read a dict they are handed but cannot edit it
_PURE = ("dict", "len", "list", "sorted", "set", "frozenset", "tuple", "iter", "bool", "isinstance", "id", "repr", "str",
         "print", "getattr", "hasattr", "copy", "deepcopy", "chain", "enumerate", "zip", "any", "all", "min", "max", "type")


def _tables_of(node, alias):
    """the name tables an expression may denote: `<obj>.all_X`, `getattr(<obj>, "all_X"[, default])`, a
    local name / parameter bound to one, or `getattr(<obj>, name)` with `name` the variable of a loop
    over a literal tuple of attribute names"""
    if isinstance(node, ast.Attribute) and node.attr in _TABLES:
        return {node.attr}
    if isinstance(node, ast.Name) and node.id in alias:
        return set(alias[node.id])
    if isinstance(node, ast.Call) and isinstance(node.func, ast.Name) and node.func.id == "getattr" and len(node.args) >= 2:
        return _names_of(node.args[1], alias)
    return set()


def _names_of(node, alias):
    """the table names a string expression may stand for"""
    if isinstance(node, ast.Constant) and node.value in _TABLES:
        return {node.value}
    if isinstance(node, ast.Name) and ("$" + node.id) in alias:
        return set(alias["$" + node.id])
    return set()


def _local_aliases(fn, alias):
    """`tbl = self.all_procs` makes `tbl` a name of the table; `for name in ("all_procs", ...)` makes
    `name` stand for these attribute names (entered as `$name`).  Flow-insensitive."""
    alias = {k: set(v) for k, v in alias.items()}
    changed = True
    while changed:
        changed = False
        for st in ast.walk(fn):
            if isinstance(st, ast.Assign) and len(st.targets) == 1 and isinstance(st.targets[0], ast.Name):
                t = _tables_of(st.value, alias)
                if t - alias.get(st.targets[0].id, set()):
                    alias.setdefault(st.targets[0].id, set()).update(t)
                    changed = True
            elif isinstance(st, (ast.For, ast.comprehension)) and isinstance(st.target, ast.Name) \
                    and isinstance(st.iter, (ast.Tuple, ast.List)):
                t = {e.value for e in st.iter.elts if isinstance(e, ast.Constant) and e.value in _TABLES}
                if t - alias.get("$" + st.target.id, set()):
                    alias.setdefault("$" + st.target.id, set()).update(t)
                    changed = True
    return alias


def _callee_name(call):
    f = call.func
    if isinstance(f, ast.Name):
        return f.id
    if isinstance(f, ast.Attribute):
        return f.attr
    return None


def _direct_ops(fn, alias):
    """{(table, op)} of the statements of one function: op = bind (the attribute is (re)bound), write
    (an entry is entered: d[k] = v, d.update, d.setdefault, d |= ...), remove (pop, del, clear)"""
    ops = set()

    def add(tables, op):
        for t in tables:
            ops.add((t, op))

    for st in ast.walk(fn):
        if isinstance(st, (ast.Assign, ast.AnnAssign, ast.AugAssign, ast.Delete)):
            if isinstance(st, ast.AnnAssign) and st.value is None:
                continue  # a bare annotation binds nothing
            tgts = st.targets if isinstance(st, (ast.Assign, ast.Delete)) else [st.target]
            flat = []
            for t in tgts:
                flat += list(t.elts) if isinstance(t, (ast.Tuple, ast.List)) else [t]
            for t in flat:
                if isinstance(t, ast.Subscript):
                    add(_tables_of(t.value, alias), "remove" if isinstance(st, ast.Delete) else "write")
                elif isinstance(t, ast.Attribute):
                    add(_tables_of(t, alias), "remove" if isinstance(st, ast.Delete)
                        else "write" if isinstance(st, ast.AugAssign) else "bind")
                elif isinstance(t, ast.Name) and isinstance(st, ast.AugAssign):
                    add(_tables_of(t, alias), "write")
        elif isinstance(st, ast.Call) and isinstance(st.func, ast.Attribute) \
                and (st.func.attr in _WRITERS or st.func.attr in _REMOVERS):
            add(_tables_of(st.func.value, alias), "write" if st.func.attr in _WRITERS else "remove")
        elif isinstance(st, ast.Call) and isinstance(st.func, ast.Name) and st.func.id in ("setattr", "delattr") \
                and len(st.args) >= 2:
            add(_names_of(st.args[1], alias), "bind" if st.func.id == "setattr" else "remove")
    return ops


def _params(fn):
    a = fn.args
    return [x.arg for x in a.posonlyargs + a.args], [x.arg for x in a.kwonlyargs]


def _total_ops(fn, alias, defs, seen, depth=0):
    """the operations of a function and of the helpers it calls (a table handed to a helper as an
    argument is followed into the helper's parameter)"""
    alias = _local_aliases(fn, alias)
    ops = _direct_ops(fn, alias)
    if depth >= 5:
        return ops
    for call in ast.walk(fn):
        if not isinstance(call, ast.Call):
            continue
        name = _callee_name(call)
        handed = [(i, frozenset(_tables_of(a, alias))) for i, a in enumerate(call.args) if _tables_of(a, alias)]
        handed_kw = [(k.arg, frozenset(_tables_of(k.value, alias))) for k in call.keywords if k.arg and _tables_of(k.value, alias)]
        if name is None or name in _ENTRY:
            continue
        cands = defs.get(name, [])
        if not cands:
            # an unknown plain function that is handed a table may edit it (a method of some other
            # object - `merged.update(table)`, `chain(...)` - only reads it)
            if (handed or handed_kw) and name not in _PURE and isinstance(call.func, ast.Name):
                for _, ts in handed + handed_kw:
                    for t in ts:
                        ops.add((t, f"handed to {name}"))
            continue
        for is_method, callee in cands:
            if isinstance(call.func, ast.Name) and is_method:
                continue  # a plain name does not call a method
            key = (id(callee), tuple(sorted(handed, key=repr)), tuple(sorted(handed_kw, key=repr)))
            if key in seen:
                continue
            pos, kwonly = _params(callee)
            if is_method and isinstance(call.func, ast.Attribute):
                pos = pos[1:]  # self
            sub = {}
            for i, t in handed:
                if i < len(pos):
                    sub[pos[i]] = set(t)
            for k, t in handed_kw:
                if k in pos or k in kwonly:
                    sub[k] = set(t)
            ops |= _total_ops(callee, sub, defs, seen | {key}, depth + 1)
    return ops


def extract_mutations():
    """[(site, table, op)] in source order of the sites; per site sorted.  A site is a function that the
    framework calls (`correlate`, `_cleanup`, ...) or that nothing in the two files calls; the
    operations of a helper belong to its callers."""
    trees = [(rel, ast.parse((common.REPO / "ford" / rel).read_text())) for rel in ("sourceform.py", "fortran_project.py")]
    defs: dict = {}
    funcs = []  # (site name, node)
    for rel, tree in trees:
        for node in tree.body:
            if isinstance(node, (ast.FunctionDef, ast.AsyncFunctionDef)):
                defs.setdefault(node.name, []).append((False, node))
                funcs.append((f"{rel[:-3]}.{node.name}", node))
            elif isinstance(node, ast.ClassDef):
                for m in node.body:
                    if isinstance(m, (ast.FunctionDef, ast.AsyncFunctionDef)):
                        defs.setdefault(m.name, []).append((True, m))
                        funcs.append((f"{node.name}.{m.name}", m))
    called = set()
    for _, tree in trees:
        for n in ast.walk(tree):
            if isinstance(n, ast.Call) and _callee_name(n):
                called.add(_callee_name(n))
    out = []
    for site, node in funcs:
        if node.name not in _ENTRY and node.name in called:
            continue  # a helper
        for tb, op in sorted(_total_ops(node, {}, defs, frozenset())):
            out.append((site, tb, op))
    sites = [s for s, _, _ in out]
    if "FortranCodeUnit.correlate" not in sites or "FortranCodeUnit._cleanup" not in sites:
        raise LookupError("construction of the name tables in FortranCodeUnit._cleanup / correlate not found")
    return out


# --------------------------------------------------------------------------------------------
# Generated/C07.lean
# --------------------------------------------------------------------------------------------


_PRIVATE_SRC = """
module q0
  implicit none
  type ta
  contains
    procedure, nopass, private :: pa => sa
    procedure, nopass :: pb => sb
  end type ta
  type, extends(ta) :: tb
  contains
    generic :: g => pa, pb
  end type tb
  type, extends(tb) :: tc
  contains
    generic :: h => pa
  end type tc
contains
  subroutine sa()
  end subroutine sa
  subroutine sb()
  end subroutine sb
end module q0
"""


def probe_private():
    """-> [(slot, entity | None)]: the specifics of tb's `generic :: g => pa, pb` (slots 0, 1) and of tc's
    `generic :: h => pa` (slot 2), where `pa` (10) is a PRIVATE and `pb` (12) a public binding of ta"""
    project, exc = _correlated({"q.f90": _PRIVATE_SRC})
    if exc is not None:
        raise LookupError(f"probe: correlate() failed on the private-binding witness: {type(exc).__name__}: {exc}")
    m = _unit(project, "q0")
    ta, tb, tc = (_by(m.types, n, "type") for n in ("ta", "tb", "tc"))
    ents = {id(_by(ta.boundprocs, "pa", "binding")): 10, id(_by(ta.boundprocs, "pb", "binding")): 12}
    g = _by(tb.boundprocs, "g", "generic binding")
    h = _by(tc.boundprocs, "h", "generic binding")
    cells = [g.bindings[0], g.bindings[1], h.bindings[0]]
    out = []
    for i, c in enumerate(cells):
        if isinstance(c, str):
            out.append((i, None))
        elif id(c) in ents:
            out.append((i, ents[id(c)]))
        else:
            raise LookupError(f"probe_private: specific {i} holds {type(c).__name__} {getattr(c, 'name', '?')}")
    return out


def private_variant():
    """'1' = an extension does not inherit the PRIVATE bindings of its parent type, '0' = it does"""
    return "1" if dict(probe_private())[0] is None else "0"


# --------------------------------------------------------------------------------------------
# accessibility: which identifiers of a module a USE statement can see
# --------------------------------------------------------------------------------------------

def _am(name, dflt, stmts, uses, decls, refs):
    return {"name": name, "dflt": dflt, "stmts": stmts, "uses": [{"mod": u, "only": False, "items": []} for u in uses],
            "decls": [{"k": k, "name": n, "ent": e, "attr": a} for k, n, e, a in decls],
            "refs": [{"id": i, "k": k, "name": n} for i, k, n in refs]}


_ACC_REFS = [("ty", "ta"), ("pa", "ta"), ("ty", "tb"), ("pa", "tb"), ("pa", "pa"), ("pa", "pb"), ("pa", "pc")]

# hand-written witness (independent of the generator of the harness): a default-public and a default-private
# module with the constructor idiom under every combination of attribute / no attribute, access statements,
# users of both, a default-private re-exporter, and a module with a type of a hidden name
ACCESS_WITNESS = {"modules": [
    _am("m0", "public", [("private", "pa")], [],
        [("t", "ta", 1, "private"), ("g", "ta", 2, None), ("t", "tb", 3, None), ("g", "tb", 4, None),
         ("p", "pa", 5, None), ("p", "pb", 6, None), ("a", "pc", 7, None)], []),
    _am("m1", "private", [("public", "pa")], [],
        [("t", "ta", 8, "public"), ("g", "ta", 9, None), ("t", "tb", 10, None), ("g", "tb", 11, None),
         ("p", "pa", 12, None), ("p", "pb", 13, None)], []),
    _am("m2", "public", [], ["m0"], [], [(i, k, n) for i, (k, n) in enumerate(_ACC_REFS)]),
    _am("m3", "public", [], ["m1"], [], [(10 + i, k, n) for i, (k, n) in enumerate(_ACC_REFS)]),
    _am("m4", "private", [("public", "tb")], ["m0"], [], []),
    _am("m5", "public", [], ["m4"], [], [(20 + i, k, n) for i, (k, n) in enumerate(_ACC_REFS)]),
    _am("m6", "public", [], ["m0"], [("t", "ta", 14, None)], [(30, "ctor", "ta"), (31, "ty", "ta")]),
]}
_ACC_NAMES = ["ta", "tb", "pa", "pb", "pc"]


def probe_access():
    """-> (slots: [(id, ent | None)], exported: [(module index, table, name, ent | None)]) as the
    implementation under test resolves / exports them on ACCESS_WITNESS"""
    import random

    from harness import c07 as H
    from harness import c07_access as A

    ford = common.import_ford()
    files = A.render(ACCESS_WITNESS, random.Random(0))
    with common.scratch_dir("ford-c07-probe-") as d:
        slots, tables = A.observe(ford, H, d, ACCESS_WITNESS, files)
    for i, e in slots.items():
        if isinstance(e, tuple):
            raise LookupError(f"probe_access: slot {i} holds {e[1]}, which is no entity of the witness")
    exported = []
    for k in range(len(ACCESS_WITNESS["modules"])):
        for tag in ("p", "a", "t"):
            tb = tables[(k, tag)]
            for n, e in tb.items():
                if isinstance(e, tuple) or n not in _ACC_NAMES:
                    raise LookupError(f"probe_access: public table {tag} of module {k} holds {n} -> {e}")
            for n in _ACC_NAMES:
                exported.append((k, tag, n, tb.get(n)))
    return sorted(slots.items()), exported


def _access_lean(acc):
    slots, exported = acc
    mods = []
    for m in ACCESS_WITNESS["modules"]:
        mods.append(
            "  (" + _chars(m["name"]) + ", " + _b(m["dflt"] == "private") + ", ["
            + ", ".join(f"({_b(kw == 'private')}, {_chars(n)})" for kw, n in m["stmts"]) + "], ["
            + ", ".join(_chars(u["mod"]) for u in m["uses"]) + "],\n    ["
            + ", ".join(f"({_q(d['k'])}, {_chars(d['name'])}, {d['ent']}, {_q(d['attr'] or '')})" for d in m["decls"]) + "],\n    ["
            + ", ".join(f"({r['id']}, {_q({'ty': 'ty', 'pa': 'pa', 'ctor': 'pr'}[r['k']])}, {_chars(r['name'])})" for r in m["refs"]) + "])")
    return [
        "/-- accessibility witness (translate/c07.py: ACCESS_WITNESS): per module (name, has a bare PRIVATE, access statements",
        "    (is PRIVATE, name), modules used without list, declarations (kind t/g/p/a, name, entity, access attribute),",
        "    references (slot, lookup kind, name)) -/",
        "def accessWitness : List (List Char × Bool × List (Bool × List Char) × List (List Char) ×",
        "    List (String × List Char × Nat × String) × List (Nat × String × List Char)) := [",
        ",\n".join(mods) + "]",
        "",
        "/-- what the implementation under test stored in the reference slots of the witness (none = text) -/",
        "def accessSlots : List (Nat × Option Nat) := [" + ", ".join(f"({i}, {_opt(e)})" for i, e in slots) + "]",
        "",
        "/-- what the implementation's public tables hold: (module index, p = pub_procs / a = pub_absints / t = pub_types, name, entity) -/",
        "def accessExported : List (Nat × String × List Char × Option Nat) := ["
        + ", ".join(f"({k}, {_q(t)}, {_chars(n)}, {_opt(e)})" for k, t, n, e in exported) + "]",
        "",
    ]


def _q(x):
    return '"' + x.replace("\\", "\\\\").replace('"', '\\"') + '"'


def _lstr(xs):
    return "[" + ", ".join(_q(x) for x in xs) + "]"


def _ltup(xs):
    return "[" + ", ".join("(" + ", ".join(_q(y) for y in x) + ")" for x in xs) + "]"


def _b(x):
    return "true" if x else "false"


def _chars(s):
    return "[" + ", ".join("'%s'" % c for c in s) + "]"


def _opt(e):
    return "none" if e is None else f"some {e}"


def generate():
    rec = probe_recursion()
    host = probe_host()
    lk = probe_lookups()
    use = probe_use()
    blk = probe_blocks()
    gen = probe_generic()
    sub = probe_sub()
    mut = extract_mutations()
    acc = probe_access()
    prv = probe_private()
    use_lines = []
    for only, items, res in use:
        use_lines.append(
            "  (" + _b(only) + ", [" + ", ".join(f"({_chars(l)}, {_chars(r)})" for l, r in items) + "],\n    ["
            + ", ".join(f"({_b(t)}, {_chars(n)}, {_opt(e)})" for t, n, e in res) + "])")
    lines = [
        "/- GENERATED by translate/c07.py by probing the working tree of FORD (witness projects run through",
        "   the real parser and Project.correlate()) - do not edit -/",
        "namespace Ford.C07Gen",
        "",
        "/-- the lists of a code unit in the order FortranCodeUnit.correlate correlates their members",
        "    (derived types left out: `typesBeforeRecursion`) -/",
        f"def correlateRecursion : List String := {_lstr(rec['recursion'])}",
        "",
        "/-- the derived types of a unit are correlated before everything else it holds -/",
        f"def typesBeforeRecursion : Bool := {_b(rec['types_before'])}",
        "",
        "/-- how the host's table reaches a nested unit -/",
        "def hostTables : List (String × String) := ["
        + ", ".join(f"({_q(k)}, {_q(host[k])})" for k in ("all_procs", "all_absinterfaces", "all_types")) + "]",
        "",
        "/-- per kind of reference: the name spaces it is looked up in, in priority order -/",
        "def slotLookups : List (String × List String) := ["
        + ", ".join(f"({_q(k)}, {_lstr(lk['priority'][k])})" for k in _REF_KINDS) + "]",
        "",
        "/-- a reference is found whatever its letter case -/",
        f"def lookupsIgnoreCase : Bool := {_b(lk['ignore_case'])}",
        "",
        "/-- the public entities of the used module of the USE witness: derived types, procedures, abstract interfaces",
        "    (head = declared last) -/",
        "def usePubTypes : List (List Char × Nat) := [" + ", ".join(f"({_chars(n)}, {e})" for n, e in reversed(USE_TYPES)) + "]",
        "def usePubProcs : List (List Char × Nat) := [" + ", ".join(f"({_chars(n)}, {e})" for n, e in reversed(USE_PROCS)) + "]",
        "def usePubAbs : List (List Char × Nat) := [" + ", ".join(f"({_chars(n)}, {e})" for n, e in reversed(USE_ABS)) + "]",
        "",
        "/-- USE statements (has ONLY, items (local name, name in the module)) and what every candidate name denotes in",
        "    the using unit: (type(...) reference / procedure(...) reference, name, entity) -/",
        "def useProbes : List (Bool × List (List Char × List Char) × List (Bool × List Char × Option Nat)) := [",
        ",\n".join(use_lines) + "]",
        "",
        "/-- statement kinds inside a BLOCK construct: is the statement filed in the enclosing unit -/",
        "def blockFiled : List (String × Bool) := [" + ", ".join(f"({_q(k)}, {_b(v)})" for k, v in blk["filed"]) + "]",
        "",
        "/-- nested and labelled BLOCK constructs are counted -/",
        "def blockNesting : List (String × Bool) := [" + ", ".join(f"({_q(k)}, {_b(v)})" for k, v in blk["nesting"]) + "]",
        "",
        "/-- the copy of a generic binding an extension inherits shares the parent's list of specifics -/",
        f"def inheritedGenericShared : Bool := {_b(gen['shared'])}",
        "",
        "/-- after an extension overrode the specific: whose binding the PARENT's generic / the extension's copy names -/",
        f"def inheritedGenericWitness : String × String := ({_q(gen['witness'])}, {_q(gen['witness_ext'])})",
        "",
        "/-- `boundprocs` of the extension (ta: pa pz g1; tb overrides pa) -/",
        f"def boundprocsOrder : List String := {_lstr(gen['order'])}",
        "",
        "/-- submodule witness: (situation, what FORD does) -/",
        f"def submoduleProbes : List (String × String) := {_ltup(sub)}",
        "",
        "/-- every function of ford/sourceform.py and ford/fortran_project.py that binds / writes into / removes from a",
        "    name table `all_procs` / `all_types` / `all_absinterfaces`: (site, table, operation), a set per site -/",
        f"def nameTableOps : List (String × String × String) := {_ltup(mut)}",
        "",
        "/-- ... the sites, in source order -/",
        f"def nameTableSites : List String := {_lstr(list(dict.fromkeys(s for s, _, _ in mut)))}",
        "",
        "/-- private-binding witness (ta: private pa = 10, public pb = 12; tb extends ta: generic g => pa, pb = slots 0, 1;",
        "    tc extends tb: generic h => pa = slot 2): what the specifics hold -/",
        "def privateProbe : List (Nat × Option Nat) := [" + ", ".join(f"({i}, {_opt(e)})" for i, e in prv) + "]",
        "",
    ] + _access_lean(acc) + [
        "end Ford.C07Gen",
        "",
    ]
    common.write_if_changed(common.LEAN / "FordModel" / "Generated" / "C07.lean", "\n".join(lines))
    return {"recursion": rec, "host": host, "lookups": lk, "use": use, "blocks": blk, "generic": gen, "sub": sub, "access": acc, "private": prv}


if __name__ == "__main__":
    import pprint

    pprint.pprint(generate())
    pprint.pprint(extract_mutations())
