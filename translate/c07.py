"""C07 translator: reads the structure of `FortranCodeUnit.correlate` from the working
tree with `ast` and regenerates lean/FordModel/Generated/C07.lean:

  correlateRecursion : the attribute names of the `self.iterator(...)` call whose loop body
                       is `entity.correlate(project)` (the recursion order)
  typesBeforeRecursion : the `dtype.correlate(project)` loop precedes that recursion
  hostTables : for all_procs / all_absinterfaces / all_types how the host's table reaches the
               unit ("update" = self.X.update(getattr(self.parent, X, {})), "alias" = self.X =
               getattr(self.parent, X, {}), "copy" = a dict built from the host's, "merge-local-over-host")
  slotLookups : per reference owner class, the tables its `correlate` consults, in source order
  usedObjects* / usedNamesWrites : shape of `FortranModule.get_used_entities`: what `result` starts
               from, what is iterated, under which conditions which key is written (the renamed
               entity is filed under its local name and under nothing else), and the direction of
               the `used_names` entries

  blockGuards / blockCounter / useBranchBlockAware : the statement dispatcher and BLOCK constructs -
               which branches are switched off while `blocklevel > 0` (block-local declarations are
               not filed in the enclosing unit)

  boundBindingWrites / boundProtoWrites / boundLocalTables : `FortranBoundProcedure.correlate` - which
               table the names of a binding statement are looked up in, under which conditions
               (generic: the bindings of the type; specific: all_procs; deferred: nowhere)
  nameTableMutations : every site of the two source files that binds or mutates a name table
  inheritedGenericStmts / boundprocsBuild : `FortranType.correlate` - how an inherited generic binding
               is copied (with or without a list of specifics of its own)

A construct that cannot be found raises (tie broken, never a pass).
"""
from __future__ import annotations

import ast
from pathlib import Path

from harness import common


def _src():
    return (common.REPO / "ford" / "sourceform.py").read_text()


def _method(tree, cls, name):
    for n in tree.body:
        if isinstance(n, ast.ClassDef) and n.name == cls:
            for m in n.body:
                if isinstance(m, ast.FunctionDef) and m.name == name:
                    return m
    raise LookupError(f"{cls}.{name} not found")


def _is_self_attr(node, attr=None):
    return (isinstance(node, ast.Attribute) and isinstance(node.value, ast.Name) and node.value.id == "self"
            and (attr is None or node.attr == attr))


def _is_parent_getattr(node, attr):
    """getattr(self.parent, "<attr>", {})"""
    return (isinstance(node, ast.Call) and isinstance(node.func, ast.Name) and node.func.id == "getattr"
            and len(node.args) >= 2 and _is_self_attr(node.args[0], "parent")
            and isinstance(node.args[1], ast.Constant) and node.args[1].value == attr)


def _mentions_parent(node, attr):
    for n in ast.walk(node):
        if _is_parent_getattr(n, attr):
            return True
        if isinstance(n, ast.Attribute) and n.attr == attr and _is_self_attr(n.value, "parent"):
            return True
    return False


def extract():
    tree = ast.parse(_src())
    fn = _method(tree, "FortranCodeUnit", "correlate")
    rec = None
    rec_line = None
    types_line = None
    for n in ast.walk(fn):
        if isinstance(n, ast.For) and isinstance(n.iter, ast.Call) and isinstance(n.iter.func, ast.Attribute) \
                and n.iter.func.attr == "iterator" and isinstance(n.iter.func.value, ast.Name) and n.iter.func.value.id == "self":
            body_calls = [c for c in ast.walk(n) if isinstance(c, ast.Call) and isinstance(c.func, ast.Attribute) and c.func.attr == "correlate"]
            if body_calls:
                rec = [a.value for a in n.iter.args]
                rec_line = n.lineno
        if isinstance(n, ast.For) and isinstance(n.target, ast.Name) and n.target.id == "dtype":
            if any(isinstance(c, ast.Call) and isinstance(c.func, ast.Attribute) and c.func.attr == "correlate" for c in ast.walk(n)):
                types_line = n.lineno
    if rec is None or types_line is None:
        raise LookupError("recursion loop / type correlation loop of FortranCodeUnit.correlate not found")
    host = {}
    for attr in ("all_procs", "all_absinterfaces", "all_types"):
        how = None
        for st in fn.body:
            if isinstance(st, ast.Expr) and isinstance(st.value, ast.Call) and isinstance(st.value.func, ast.Attribute) \
                    and st.value.func.attr == "update" and _is_self_attr(st.value.func.value, attr) \
                    and st.value.args and _mentions_parent(st.value.args[0], attr):
                how = "update"
                break
            if isinstance(st, ast.Assign) and len(st.targets) == 1 and _is_self_attr(st.targets[0], attr):
                if _is_parent_getattr(st.value, attr):
                    how = "alias"
                elif isinstance(st.value, ast.Dict) and _mentions_parent(st.value, attr):
                    # {**host, **self.X}: later keys win
                    keys_none = [k is None for k in st.value.keys]
                    vals = st.value.values
                    if all(keys_none) and len(vals) == 2 and _mentions_parent(vals[0], attr) and _is_self_attr(vals[1], attr):
                        how = "merge-local-over-host"
                    elif all(keys_none) and len(vals) == 2 and _mentions_parent(vals[1], attr) and _is_self_attr(vals[0], attr):
                        how = "update"
                    else:
                        how = "copy"
                elif _mentions_parent(st.value, attr):
                    how = "copy"
                break
        if how is None:
            raise LookupError(f"host association of {attr} not recognised in FortranCodeUnit.correlate")
        host[attr] = how
    lookups = {}
    for cls in ("FortranVariable", "FortranBoundProcedure", "FortranFinalProc", "FortranType", "FortranInterface"):
        m = _method(tree, cls, "correlate")
        seq = []
        for n in ast.walk(m):
            if isinstance(n, ast.Attribute) and n.attr in ("all_procs", "all_absinterfaces", "all_types"):
                seq.append((n.lineno, n.col_offset, n.attr))
        lookups[cls] = [a for _, _, a in sorted(seq)]
    return {"recursion": rec, "types_before": types_line < rec_line, "host": host, "lookups": lookups}


def _walk_writes(stmts, conds, target, out):
    """Every statement of `stmts` (recursively, with the if-conditions it is under) that touches the
    dict variable `target`: out = {"init": [...], "writes": [(cond, key, value)], "loops": [...], "other": [...]}"""
    for st in stmts:
        if isinstance(st, ast.If):
            t = ast.unparse(st.test)
            _walk_writes(st.body, conds + [t], target, out)
            _walk_writes(st.orelse, conds + [f"not ({t})"], target, out)
        elif isinstance(st, (ast.For, ast.While)):
            if isinstance(st, ast.For):
                out["loops"].append(ast.unparse(st.iter))
            _walk_writes(st.body, conds, target, out)
            _walk_writes(st.orelse, conds, target, out)
        elif isinstance(st, ast.Assign) and len(st.targets) == 1 and isinstance(st.targets[0], ast.Name) \
                and st.targets[0].id == target:
            out["init"].append(ast.unparse(st.value))
        elif isinstance(st, ast.Assign) and len(st.targets) == 1 and isinstance(st.targets[0], ast.Subscript) \
                and isinstance(st.targets[0].value, ast.Name) and st.targets[0].value.id == target:
            out["writes"].append((" and ".join(conds) or "always", ast.unparse(st.targets[0].slice), ast.unparse(st.value)))
        elif isinstance(st, (ast.Return, ast.Expr, ast.Assign, ast.AugAssign, ast.AnnAssign, ast.Delete, ast.With, ast.Try)):
            if isinstance(st, ast.Return) and isinstance(st.value, ast.Name) and st.value.id == target:
                continue
            if any(isinstance(n, ast.Name) and n.id == target for n in ast.walk(st)):
                out["other"].append(ast.unparse(st).splitlines()[0])
            if isinstance(st, (ast.With, ast.Try)):
                _walk_writes(getattr(st, "body", []), conds, target, out)


def extract_use():
    """Shape of FortranModule.get_used_entities (the USE import)."""
    tree = ast.parse(_src())
    fn = _method(tree, "FortranModule", "get_used_entities")
    inner = [n for n in fn.body if isinstance(n, ast.FunctionDef) and n.name == "used_objects"]
    if len(inner) != 1:
        raise LookupError("inner function used_objects of FortranModule.get_used_entities not found")
    uo = {"init": [], "writes": [], "loops": [], "other": []}
    _walk_writes(inner[0].body, [], "result", uo)
    un = {"init": [], "writes": [], "loops": [], "other": []}
    _walk_writes([st for st in fn.body if not isinstance(st, ast.FunctionDef)], [], "used_names", un)
    if not uo["init"] or not uo["writes"] or not un["writes"]:
        raise LookupError("get_used_entities: construction of `result` / `used_names` not recognised")
    # `if len(use_specs.strip()) == 0: return (self.pub_procs, ...)`
    whole = None
    for st in fn.body:
        if isinstance(st, ast.If) and st.body and isinstance(st.body[0], ast.Return):
            whole = (ast.unparse(st.test), ast.unparse(st.body[0].value))
            break
    if whole is None:
        raise LookupError("get_used_entities: early return for a USE without list not found")
    # the four calls `used_objects("<table>", only)`
    calls = []
    for n in ast.walk(fn):
        if isinstance(n, ast.Call) and isinstance(n.func, ast.Name) and n.func.id == "used_objects":
            calls.append(", ".join(ast.unparse(a) for a in n.args))
    return {"used_objects": uo, "used_names": un, "whole": whole, "calls": calls}


def _conjuncts(test):
    if isinstance(test, ast.BoolOp) and isinstance(test.op, ast.And):
        out = []
        for v in test.values:
            out += _conjuncts(v)
        return out
    return [test]


def _is_blocklevel_zero(node):
    return (isinstance(node, ast.Compare) and isinstance(node.left, ast.Name) and node.left.id == "blocklevel"
            and len(node.ops) == 1 and isinstance(node.ops[0], ast.Eq)
            and isinstance(node.comparators[0], ast.Constant) and node.comparators[0].value == 0)


def extract_blocks():
    """The statement dispatcher `FortranContainer.__init__` and BLOCK constructs: for every branch of
    the if/elif chain of the `for line in source` loop that tests a `self.<X>_RE`, whether the test
    carries the conjunct `blocklevel == 0` (the statement is then NOT filed in the enclosing unit
    while inside a BLOCK); where `blocklevel` is counted up and down; whether the body of the USE
    branch looks at `blocklevel` itself."""
    tree = ast.parse(_src())
    fn = _method(tree, "FortranContainer", "__init__")
    loop = None
    for n in ast.walk(fn):
        if isinstance(n, ast.For) and isinstance(n.target, ast.Name) and n.target.id == "line" \
                and isinstance(n.iter, ast.Name) and n.iter.id == "source":
            loop = n
    if loop is None:
        raise LookupError("FortranContainer.__init__: `for line in source` not found")
    # the if/elif chain with the most branches
    best = []
    for st in loop.body:
        if isinstance(st, ast.If):
            chain = []
            cur = st
            while True:
                chain.append(cur)
                if len(cur.orelse) == 1 and isinstance(cur.orelse[0], ast.If):
                    cur = cur.orelse[0]
                else:
                    break
            if len(chain) > len(best):
                best = chain
    if len(best) < 10:
        raise LookupError("FortranContainer.__init__: statement dispatcher (if/elif chain) not found")
    guards = []
    counter = []
    use_aware = None
    for br in best:
        regs = sorted({n.attr for n in ast.walk(br.test) if isinstance(n, ast.Attribute) and n.attr.endswith("_RE")
                       and isinstance(n.value, ast.Name) and n.value.id == "self"})
        guarded = any(_is_blocklevel_zero(c) for c in _conjuncts(br.test))
        other = [c for c in ast.walk(br.test) if isinstance(c, ast.Name) and c.id == "blocklevel"]
        if other and not guarded:
            raise LookupError(f"dispatcher branch {ast.unparse(br.test)!r}: use of blocklevel not recognised")
        for r in regs:
            guards.append((r, guarded))
        for n in ast.walk(ast.Module(body=br.body, type_ignores=[])):
            if isinstance(n, ast.AugAssign) and isinstance(n.target, ast.Name) and n.target.id == "blocklevel":
                counter.append(("+".join(regs) or ast.unparse(br.test), ast.unparse(n)))
        if "USE_RE" in regs:
            use_aware = any(isinstance(n, ast.Name) and n.id == "blocklevel"
                            for n in ast.walk(ast.Module(body=br.body, type_ignores=[])))
    names = [g[0] for g in guards]
    for need in ("USE_RE", "TYPE_RE", "INTERFACE_RE", "ENUM_RE", "VARIABLE_RE", "ATTRIB_RE", "BLOCK_RE", "END_RE"):
        if names.count(need) != 1:
            raise LookupError(f"dispatcher: exactly one branch testing self.{need} expected, found {names.count(need)}")
    if use_aware is None or not counter:
        raise LookupError("dispatcher: USE branch / blocklevel counting not found")
    return {"guards": guards, "counter": counter, "use_aware": use_aware}


def block_variant():
    """'1' = USE statements inside a BLOCK are filed in the enclosing unit like its own, '0' = not,
    as read from the source."""
    b = extract_blocks()
    g = dict(b["guards"])
    return "0" if (g["USE_RE"] or b["use_aware"]) else "1"


def code_variant():
    """'11' / '00' / ... as read from the source, or None when the shape is neither."""
    x = extract()["host"]
    if x["all_types"] != x["all_absinterfaces"]:
        return None
    alias = {"alias": "1", "copy": "0"}.get(x["all_types"])
    hol = {"update": "1", "merge-local-over-host": "0"}.get(x["all_procs"])
    if alias is None or hol is None:
        return None
    return alias + hol


def _walk_stmts(stmts, conds, visit):
    """visit(statement, [conditions it is under]) for every simple statement, recursively through
    if / for / while / with / try"""
    for st in stmts:
        if isinstance(st, ast.If):
            t = ast.unparse(st.test)
            _walk_stmts(st.body, conds + [t], visit)
            _walk_stmts(st.orelse, conds + [f"not ({t})"], visit)
        elif isinstance(st, (ast.For, ast.While)):
            _walk_stmts(st.body, conds, visit)
            _walk_stmts(st.orelse, conds, visit)
        elif isinstance(st, ast.With):
            _walk_stmts(st.body, conds, visit)
        elif isinstance(st, ast.Try):
            _walk_stmts(st.body, conds, visit)
            for h in st.handlers:
                _walk_stmts(h.body, conds + ["except"], visit)
            _walk_stmts(st.orelse, conds, visit)
            _walk_stmts(st.finalbody, conds, visit)
        elif isinstance(st, ast.FunctionDef):
            continue
        else:
            visit(st, conds)


def _cond(conds):
    return " and ".join(conds) or "always"


def extract_bound():
    """`FortranBoundProcedure.correlate`: every write to `self.bindings[...]` and to `self.proto`
    with the conditions it is under and the table it reads, and the local dicts it builds.  (A
    deferred binding must be looked up nowhere, a generic one among the bindings of the type, a
    specific one among the procedures of the scope.)"""
    tree = ast.parse(_src())
    fn = _method(tree, "FortranBoundProcedure", "correlate")
    writes, protos, local, other = [], [], [], []

    def visit(st, conds):
        if isinstance(st, ast.Assign) and len(st.targets) == 1:
            tg = st.targets[0]
            if isinstance(tg, ast.Subscript) and _is_self_attr(tg.value, "bindings"):
                writes.append((_cond(conds), ast.unparse(st.value)))
                return
            if _is_self_attr(tg, "proto"):
                protos.append((_cond(conds), ast.unparse(st.value)))
                return
            if isinstance(tg, ast.Name) and isinstance(st.value, (ast.Dict, ast.DictComp, ast.Attribute, ast.IfExp, ast.Call)) \
                    and any(isinstance(n, ast.Attribute) and n.attr in ("boundprocs", "all_procs", "all_absinterfaces", "all_types")
                            for n in ast.walk(st.value)):
                local.append((_cond(conds), tg.id, ast.unparse(st.value)))
                return
        if any(isinstance(n, ast.Attribute) and n.attr == "bindings" for n in ast.walk(st)) and \
                any(isinstance(n, (ast.Store, ast.Del)) for n in ast.walk(st)):
            # anything else that may write into `bindings` (slices, augmented assignment, del ...)
            tgt = [t for t in getattr(st, "targets", [getattr(st, "target", None)]) if t is not None]
            if any(isinstance(n, ast.Attribute) and n.attr == "bindings" for t in tgt for n in ast.walk(t)
                   if not (isinstance(t, ast.Attribute) and t.attr == "binding")):
                other.append(ast.unparse(st).splitlines()[0])

    _walk_stmts(fn.body, [], visit)
    if not writes or not protos:
        raise LookupError("FortranBoundProcedure.correlate: writes to self.bindings[...] / self.proto not found")
    return {"writes": writes, "protos": protos, "local": local, "other": other}


_TABLES = ("all_procs", "all_types", "all_absinterfaces")
_MUTATORS = ("update", "pop", "popitem", "clear", "setdefault", "__setitem__", "__delitem__")


def extract_mutations():
    """Every statement of ford/sourceform.py and ford/fortran_project.py that binds or mutates a
    name table `all_procs` / `all_types` / `all_absinterfaces` of any object: (Class.method,
    statement).  The model builds these tables in `_cleanup` and `correlate` of the code unit and
    nowhere else; any other site that edits one (e.g. a clean-up that removes an entry) is outside
    it and changes this list."""
    out = []
    for rel in ("sourceform.py", "fortran_project.py"):
        tree = ast.parse((common.REPO / "ford" / rel).read_text())
        for cls in tree.body:
            if not isinstance(cls, ast.ClassDef):
                continue
            for m in cls.body:
                if not isinstance(m, ast.FunctionDef):
                    continue
                for st in ast.walk(m):
                    hit = False
                    if isinstance(st, (ast.Assign, ast.AugAssign, ast.AnnAssign, ast.Delete)):
                        tgts = st.targets if isinstance(st, (ast.Assign, ast.Delete)) else [st.target]
                        for t in tgts:
                            base = t.value if isinstance(t, ast.Subscript) else t
                            if isinstance(base, ast.Attribute) and base.attr in _TABLES:
                                hit = True
                    elif isinstance(st, ast.Expr) and isinstance(st.value, ast.Call) and isinstance(st.value.func, ast.Attribute) \
                            and st.value.func.attr in _MUTATORS and isinstance(st.value.func.value, ast.Attribute) \
                            and st.value.func.value.attr in _TABLES:
                        hit = True
                    elif isinstance(st, ast.Call) and isinstance(st.func, ast.Attribute) and st.func.attr in _MUTATORS \
                            and isinstance(st.func.value, ast.Attribute) and st.func.value.attr in _TABLES:
                        hit = "call"
                    if hit is True:
                        out.append((f"{cls.name}.{m.name}", " ".join(ast.unparse(st).split())[:160]))
                    elif hit == "call":
                        txt = " ".join(ast.unparse(st).split())[:160]
                        if not any(txt in o[1] for o in out if o[0] == f"{cls.name}.{m.name}"):
                            out.append((f"{cls.name}.{m.name}", txt))
    if not any(o[0] == "FortranCodeUnit.correlate" for o in out) or not any(o[0] == "FortranCodeUnit._cleanup" for o in out):
        raise LookupError("construction of the name tables in FortranCodeUnit._cleanup / correlate not found")
    return out


def extract_inherit():
    """`FortranType.correlate`: how a generic binding of the parent type reaches the extension - the
    statements of the branches `bp.generic` of the loop over `self.extends.boundprocs` - and the
    statement that builds `self.boundprocs` from them."""
    tree = ast.parse(_src())
    fn = _method(tree, "FortranType", "correlate")
    branches = []
    build = []

    def visit(st, conds):
        if any("bp.generic" in c and not c.startswith("not") for c in conds[-1:]):
            branches.append(" ".join(ast.unparse(st).split()))
        if isinstance(st, ast.Assign) and len(st.targets) == 1 and _is_self_attr(st.targets[0], "boundprocs"):
            build.append(ast.unparse(st.value))

    _walk_stmts(fn.body, [], visit)
    if not branches or not build:
        raise LookupError("FortranType.correlate: inheritance of generic bindings not found")
    return {"branches": branches, "build": build}


def generic_variant():
    """'1' = the copy of a generic binding that an extension inherits keeps the parent's list of
    specifics (shallow `copy.copy` only), '0' = it gets a list of its own; as read from the source."""
    br = extract_inherit()["branches"]
    copies = [b for b in br if "copy.copy(bp)" in b]
    own = [b for b in br if b.replace(" ", "") in ("gen.bindings=list(bp.bindings)", "gen.bindings=bp.bindings.copy()",
                                                   "gen.bindings=copy.copy(bp.bindings)", "gen.bindings=bp.bindings[:]")]
    if not copies:
        raise LookupError("FortranType.correlate: `copy.copy(bp)` of an inherited generic binding not found")
    return "0" if len(own) == len(copies) else "1"


def extract_sub():
    """Submodules: the test with which `fortran_project.find_used_modules` picks the parent submodule
    out of the project's list, and the statements of the FortranSubmodule branch of
    `FortranCodeUnit.correlate` that bring the parent's tables in."""
    tree = ast.parse((common.REPO / "ford" / "fortran_project.py").read_text())
    fn = next((n for n in tree.body if isinstance(n, ast.FunctionDef) and n.name == "find_used_modules"), None)
    if fn is None:
        raise LookupError("fortran_project.find_used_modules not found")
    tests = []
    for n in ast.walk(fn):
        if isinstance(n, ast.For) and isinstance(n.target, ast.Name) and n.target.id == "submod":
            for st in n.body:
                if isinstance(st, ast.If):
                    tests.append(" ".join(ast.unparse(st.test).split()))
    if len(tests) != 1:
        raise LookupError("find_used_modules: the loop that looks the parent submodule up was not recognised")
    tree = ast.parse(_src())
    fn = _method(tree, "FortranCodeUnit", "correlate")
    inherit = []

    def visit(st, conds):
        txt = " ".join(ast.unparse(st).split())
        if any(isinstance(n, ast.Attribute) and n.attr in _TABLES for n in ast.walk(st)) and any(
                w in txt for w in _SUB_HOSTS):
            if isinstance(st, (ast.Assign, ast.AugAssign)) or (isinstance(st, ast.Expr) and isinstance(st.value, ast.Call)):
                inherit.append((_cond(conds), txt))
        elif isinstance(st, ast.Assign) and len(st.targets) == 1 and isinstance(st.targets[0], ast.Name) \
                and st.targets[0].id == "submodule_host" and not (isinstance(st.value, ast.Constant) and st.value.value is None):
            # (repaired shape) which unit the submodule's host is
            inherit.append((_cond(conds), txt))

    _walk_stmts(fn.body, [], visit)
    if not inherit:
        raise LookupError("FortranCodeUnit.correlate: inheritance of the parent's tables by a submodule not found")
    return {"parent_test": tests[0], "inherit": inherit}


_SUB_HOSTS = ("parent_submodule.", "ancestor_module.", "submodule_host.")


def sub_variant():
    """two characters: '1' = the parent's tables are `update`d into the submodule's (overwrite its
    local declarations) / '0' = merged under them; '1' = the parent submodule is looked up by its
    name alone / '0' = by ancestor module and name.  As read from the source."""
    x = extract_sub()
    stmts = [st for _, st in x["inherit"] if any(f"self.{t}" in st.split("=", 1)[0] or f"self.{t}.update" in st for t in _TABLES)]
    if stmts and all(".update(self.parent_submodule." in st or ".update(self.ancestor_module." in st for st in stmts):
        a = "1"
    elif stmts and all(st.startswith("self.all_") and st.split("=", 1)[1].strip().startswith("{**")
                       and st.split("=", 1)[1].rstrip("} ").split(",")[-1].strip().startswith("**self.all_") for st in stmts):
        a = "0"
    else:
        raise LookupError("submodule branch of FortranCodeUnit.correlate: shape not recognised")
    b = "0" if "ancestor" in x["parent_test"] else "1"
    return a + b


def _lstr(xs):
    return "[" + ", ".join('"%s"' % x for x in xs) + "]"


def _q(x):
    return '"' + x.replace("\\", "\\\\").replace('"', '\\"') + '"'


def _ltup(xs):
    return "[" + ", ".join("(" + ", ".join(_q(y) for y in x) + ")" for x in xs) + "]"


def generate():
    x = extract()
    u = extract_use()
    b = extract_blocks()
    bp = extract_bound()
    mut = extract_mutations()
    inh = extract_inherit()
    sub = extract_sub()
    lines = [
        "/- GENERATED by translate/c07.py from ford/sourceform.py - do not edit -/",
        "namespace Ford.C07Gen",
        "",
        "/-- names passed to `self.iterator(...)` in the recursion of FortranCodeUnit.correlate -/",
        f"def correlateRecursion : List String := {_lstr(x['recursion'])}",
        "",
        "/-- the derived types of a unit are correlated before the recursion into nested units -/",
        f"def typesBeforeRecursion : Bool := {'true' if x['types_before'] else 'false'}",
        "",
        "/-- how the host's table reaches a nested unit -/",
        "def hostTables : List (String × String) := ["
        + ", ".join(f'("{k}", "{v}")' for k, v in x["host"].items()) + "]",
        "",
        "/-- `used_objects` of FortranModule.get_used_entities: values `result` is bound to -/",
        f"def usedObjectsInit : List String := [{', '.join(_q(v) for v in u['used_objects']['init'])}]",
        "",
        "/-- ... what its loops iterate -/",
        f"def usedObjectsLoops : List String := [{', '.join(_q(v) for v in u['used_objects']['loops'])}]",
        "",
        "/-- ... every `result[key] = value`: (conditions, key, value) -/",
        f"def usedObjectsWrites : List (String × String × String) := {_ltup(u['used_objects']['writes'])}",
        "",
        "/-- ... any other statement that touches `result` -/",
        f"def usedObjectsOther : List String := [{', '.join(_q(v) for v in u['used_objects']['other'])}]",
        "",
        "/-- the tables `used_objects` is applied to -/",
        f"def usedObjectsCalls : List String := [{', '.join(_q(v) for v in u['calls'])}]",
        "",
        "/-- every `used_names[key] = value` of get_used_entities: (conditions, key, value) -/",
        f"def usedNamesWrites : List (String × String × String) := {_ltup(u['used_names']['writes'])}",
        "",
        "/-- a USE without list: (condition, returned tables) -/",
        f"def useWithoutList : String × String := ({_q(u['whole'][0])}, {_q(u['whole'][1])})",
        "",
        "/-- statement dispatcher FortranContainer.__init__: (regular expression the branch tests, the test has",
        "    the conjunct `blocklevel == 0`) in source order -/",
        "def blockGuards : List (String × Bool) := ["
        + ", ".join(f'({_q(k)}, {"true" if v else "false"})' for k, v in b["guards"]) + "]",
        "",
        "/-- where `blocklevel` is counted: (branch, statement) -/",
        f"def blockCounter : List (String × String) := {_ltup(b['counter'])}",
        "",
        "/-- the body of the USE branch looks at `blocklevel` itself -/",
        f"def useBranchBlockAware : Bool := {'true' if b['use_aware'] else 'false'}",
        "",
        "/-- `FortranBoundProcedure.correlate`: every `self.bindings[i] = <value>`: (conditions, value) -/",
        f"def boundBindingWrites : List (String × String) := {_ltup(bp['writes'])}",
        "",
        "/-- ... every `self.proto = <value>`: (conditions, value) -/",
        f"def boundProtoWrites : List (String × String) := {_ltup(bp['protos'])}",
        "",
        "/-- ... the local dicts it builds from name tables: (conditions, name, value) -/",
        f"def boundLocalTables : List (String × String × String) := {_ltup(bp['local'])}",
        "",
        "/-- ... any other statement that writes into a `bindings` list -/",
        f"def boundOtherWrites : List String := [{', '.join(_q(v) for v in bp['other'])}]",
        "",
        "/-- every statement of ford/sourceform.py and ford/fortran_project.py that binds or mutates a name table",
        "    `all_procs` / `all_types` / `all_absinterfaces`: (Class.method, statement) -/",
        f"def nameTableMutations : List (String × String) := {_ltup(mut)}",
        "",
        "/-- ... the methods that contain one, in source order -/",
        f"def nameTableSites : List String := {_lstr(list(dict.fromkeys(m for m, _ in mut)))}",
        "",
        "/-- ... those of the `_cleanup` methods (the local procedures of a unit) -/",
        f"def cleanupTableWrites : List (String × String) := {_ltup([m for m in mut if m[0].endswith('._cleanup')])}",
        "",
        "/-- ... those of FortranCodeUnit.correlate that do not read the host's (`self.parent`) table:",
        "    local declarations, USE imports (the submodule inheritance is `submoduleInherit`) -/",
        "def correlateTableWrites : List String := ["
        + ", ".join(_q(st) for m, st in mut if m == "FortranCodeUnit.correlate" and "self.parent," not in st and "self.parent." not in st
                    and not any(w in st for w in _SUB_HOSTS)) + "]",
        "",
        "/-- `FortranType.correlate`: the statements of the `bp.generic` branches of the loop over the parent's bindings -/",
        f"def inheritedGenericStmts : List String := [{', '.join(_q(v) for v in inh['branches'])}]",
        "",
        "/-- ... what `self.boundprocs` is rebuilt from -/",
        f"def boundprocsBuild : List String := [{', '.join(_q(v) for v in inh['build'])}]",
        "",
        "/-- the test with which find_used_modules picks the parent submodule out of the project's list -/",
        f"def submoduleParentTest : String := {_q(sub['parent_test'])}",
        "",
        "/-- the statements of the FortranSubmodule branch of FortranCodeUnit.correlate that touch a name table:",
        "    (conditions inside the branch, statement) -/",
        f"def submoduleInherit : List (String × String) := {_ltup(sub['inherit'])}",
        "",
        "/-- per reference owner class, the name tables its `correlate` mentions, in source order -/",
        "def slotLookups : List (String × List String) := ["
        + ", ".join(f"({_q(k)}, {_lstr(v)})" for k, v in x["lookups"].items()) + "]",
        "",
        "end Ford.C07Gen",
        "",
    ]
    common.write_if_changed(common.LEAN / "FordModel" / "Generated" / "C07.lean", "\n".join(lines))
    return x


if __name__ == "__main__":
    print(generate())
