"""C04 translator: extracts the table-shaped parts of FORD's permission mechanism
from ford/sourceform.py (with `ast`) and writes lean/FordModel/Generated/C04.lean.

Extracted (all from the working tree's source, every run):
  * the word lists of the `in [...]` tests that recognise access words
      - bare statement            FortranContainer.__init__      `line_lower in [...]`
      - declaration attributes    line_to_variables              `tmp_attrib_lower in [...]`
      - type attributes           FortranType._initialize        `attrib_lower in [...]`
      - binding attributes        FortranBoundProcedure._initialize `attribute in [...]`
      - access statements applied FortranCodeUnit.process_attribs (item loop, variable loop)
  * the category order of the two loops of process_attribs and of public_list
  * which of `self.permission` / `child_permission` is handed to each child constructor
  * the initial / reset constants: child permission of a type, the reset at a type's
    CONTAINS, the forced permission of a submodule, the default `inherited_permission`.
  * `itemPasses`: the entity lists of the first loop of process_attribs alone (the repaired deletion order
    applies to that loop only), `exportWords`: the permissions `FortranModule._cleanup` lets into the
    pub_* tables (`should_be_public`)
  * the truth table of the getter `FortranProcedure.permission` (by evaluating the property on stub
    objects: parent = generic interface / non-generic interface / module): does a procedure report its
    parent's permission (`readGeneric`, `readWrapper`, `readModule`)
  * the two character tables of the *name keying* of declarations, measured by parsing one-line modules with the
    code under test, one per printable ASCII character c (`probe_decl_names`):
      - `declDropChars`: `integer :: ab<c>(2)` declares the array `ab` (shape `(2)`): c is dropped from an
        entity-decl before the name is taken (as the code stands: the blank)
      - `cutChars`: `integer :: ab<c>2` declares `ab` with the "dimension" `<c>2`: c ends the name
        (`FortranVariable.__init__`: `(`, `*`, `[`)
    and the characters at which `ford.utils.paren_split` changes its nesting level (`splitLevelChars`,
    evaluated on the real function; the shared model `Ford.parenSplit` has them built in).
A construct that cannot be found raises (=> "tie broken", never a pass).
"""
from __future__ import annotations

import ast
from pathlib import Path

PERM = {"public": ".pub", "private": ".priv", "protected": ".prot"}
CAT = {"functions": ".func", "subroutines": ".sub", "types": ".type", "interfaces": ".iface",
       "absinterfaces": ".absIface", "variables": ".var"}


class NotFound(Exception):
    pass


def _func(tree, cls, name):
    for node in ast.walk(tree):
        if cls is None and isinstance(node, ast.FunctionDef) and node.name == name and node.col_offset == 0:
            return node
        if isinstance(node, ast.ClassDef) and node.name == cls:
            for f in node.body:
                if isinstance(f, ast.FunctionDef) and f.name == name:
                    return f
    raise NotFound(f"{cls}.{name} not found")


def _strs(node):
    if isinstance(node, (ast.List, ast.Tuple, ast.Set)) and node.elts and all(
            isinstance(e, ast.Constant) and isinstance(e.value, str) for e in node.elts):
        return [e.value for e in node.elts]
    return None


def _in_lists(fn, var=None):
    """word lists of `X in [..]` tests whose words are all access words, in source order"""
    out = []
    for node in ast.walk(fn):
        if isinstance(node, ast.Compare) and len(node.ops) == 1 and isinstance(node.ops[0], ast.In):
            words = _strs(node.comparators[0])
            if words and set(words) <= set(PERM) :
                if var is None or (isinstance(node.left, ast.Name) and node.left.id == var):
                    out.append((node.lineno, words))
    return [w for _, w in sorted(out)]


def _one(lists, what):
    if len(lists) != 1:
        raise NotFound(f"{what}: expected exactly one access-word test, found {len(lists)}")
    return lists[0]


def _iterator_args(call):
    if (isinstance(call, ast.Call) and isinstance(call.func, ast.Attribute) and call.func.attr == "iterator"):
        names = [a.value for a in call.args if isinstance(a, ast.Constant)]
        if len(names) == len(call.args):
            return names
    return None


def _is_self_attr(node, attr):
    return isinstance(node, ast.Attribute) and node.attr == attr and isinstance(node.value, ast.Name) and node.value.id == "self"


def _src(arg, what):
    if _is_self_attr(arg, "permission"):
        return ".self"
    if isinstance(arg, ast.Name) and arg.id == "child_permission":
        return ".child"
    raise NotFound(f"{what}: permission argument is neither self.permission nor child_permission: {ast.dump(arg)[:80]}")


def extract(repo: Path) -> dict:
    src = (repo / "ford" / "sourceform.py").read_text()
    tree = ast.parse(src)
    t: dict = {}
    init = _func(tree, "FortranContainer", "__init__")
    t["bareWords"] = _one(_in_lists(init, "line_lower"), "bare access statement")
    t["varAttrWords"] = _one(_in_lists(_func(tree, None, "line_to_variables")), "line_to_variables")
    t["typeAttrWords"] = _one(_in_lists(_func(tree, "FortranType", "_initialize")), "FortranType._initialize")
    t["bindAttrWords"] = _one(_in_lists(_func(tree, "FortranBoundProcedure", "_initialize")),
                              "FortranBoundProcedure._initialize")
    pa = _func(tree, "FortranCodeUnit", "process_attribs")
    loops = [n for n in pa.body if isinstance(n, ast.For)]
    # (candidate repair C04-specific-access-statement) a loop over the generic interfaces alone that hands the access
    # words to their interface bodies; it is modelled as the run-time variant `specLoop` (first thing in
    # process_attribs, same word list, nothing deleted) - anything else about it is a broken tie
    spec_loop = [n for n in loops if _iterator_args(n.iter) == ["interfaces"]]
    item_loop = [n for n in loops if _iterator_args(n.iter) and n not in spec_loop]
    var_loop = [n for n in loops if _is_self_attr(n.iter, "variables")]
    if len(item_loop) != 1 or len(var_loop) != 1 or len(spec_loop) > 1:
        raise NotFound("process_attribs: item loop / variable loop not found")
    if item_loop[0].lineno > var_loop[0].lineno:
        raise NotFound("process_attribs: variable loop now precedes the item loop")
    t["specLoopInSource"] = bool(spec_loop)
    if spec_loop:
        if spec_loop[0].lineno > item_loop[0].lineno:
            raise NotFound("process_attribs: the loop over the interface bodies must come first (it sees the whole attr_dict)")
        if any(isinstance(x, ast.Delete) for x in ast.walk(spec_loop[0])):
            raise NotFound("process_attribs: the loop over the interface bodies deletes attr_dict entries")
        spec_words = _one(_in_lists(spec_loop[0]), "process_attribs loop over the interface bodies")
    t["itemPasses"] = _iterator_args(item_loop[0].iter)
    t["attribPasses"] = t["itemPasses"] + ["variables"]
    t["applyWords"] = _one(_in_lists(item_loop[0]), "process_attribs item loop")
    if spec_loop and spec_words != t["applyWords"]:
        raise NotFound("process_attribs: the loop over the interface bodies recognises other access words than the item loop")
    t["applyVarWords"] = _one(_in_lists(var_loop[0]), "process_attribs variable loop")
    pl = None
    for node in ast.walk(pa):
        if isinstance(node, ast.Assign) and any(_is_self_attr(x, "public_list") for x in node.targets):
            for sub in ast.walk(node.value):
                if _iterator_args(sub):
                    pl = _iterator_args(sub)
            for sub in ast.walk(node.value):
                if isinstance(sub, ast.Compare) and isinstance(sub.ops[0], ast.Eq) and \
                        isinstance(sub.comparators[0], ast.Constant):
                    t["publicWord"] = sub.comparators[0].value
    if pl is None or "publicWord" not in t:
        raise NotFound("process_attribs: public_list comprehension not found")
    t["publicListCats"] = pl
    for names in (t["attribPasses"], t["publicListCats"]):
        for n in names:
            if n not in CAT:
                raise NotFound(f"unknown entity list {n!r} in process_attribs")

    # permission argument of each child constructor in the cascade
    want = {"FortranSubroutine": "srcSubroutine", "FortranFunction": "srcFunction", "FortranType": "srcType",
            "FortranInterface": "srcInterface", "FortranBoundProcedure": "srcBoundProc",
            "line_to_variables": "srcVariables"}
    found: dict[str, set] = {}
    for node in ast.walk(init):
        if isinstance(node, ast.Call) and isinstance(node.func, ast.Name) and node.func.id in want:
            if node.func.id == "line_to_variables":
                arg = node.args[2]
            else:
                if len(node.args) < 4:
                    raise NotFound(f"{node.func.id}: no inherited-permission argument (default would be used)")
                arg = node.args[3]
            found.setdefault(want[node.func.id], set()).add(_src(arg, node.func.id))
    for k in want.values():
        if k not in found or len(found[k]) != 1:
            raise NotFound(f"constructor call for {k}: {found.get(k)}")
        t[k] = found[k].pop()

    # constants
    t["typeChildInit"] = t["containsReset"] = t["submoduleInit"] = None
    for node in ast.walk(init):
        if isinstance(node, ast.Assign) and len(node.targets) == 1 and isinstance(node.targets[0], ast.Name) \
                and node.targets[0].id == "child_permission":
            v = node.value
            if isinstance(v, ast.IfExp) and isinstance(v.body, ast.Constant) and _is_self_attr(v.orelse, "permission") \
                    and "FortranType" in ast.dump(v.test):
                t["typeChildInit"] = v.body.value
        if isinstance(node, ast.If):
            d = ast.dump(node.test)
            if "FortranSubmodule" in d and isinstance(node.test, ast.Compare) and isinstance(node.test.ops[0], ast.Is):
                for b in node.body:
                    if isinstance(b, ast.Assign) and _is_self_attr(b.targets[0], "permission") and isinstance(b.value, ast.Constant):
                        t["submoduleInit"] = b.value.value
            if isinstance(node.test, ast.Compare) and isinstance(node.test.left, ast.Name) and node.test.left.id == "line_lower" \
                    and isinstance(node.test.comparators[0], ast.Constant) and node.test.comparators[0].value == "contains":
                for sub in ast.walk(node):
                    if isinstance(sub, ast.If) and "FortranType" in ast.dump(sub.test):
                        for b in sub.body:
                            if isinstance(b, ast.Assign) and isinstance(b.targets[0], ast.Name) and \
                                    b.targets[0].id == "child_permission" and isinstance(b.value, ast.Constant):
                                t["containsReset"] = b.value.value
    for k in ("typeChildInit", "containsReset", "submoduleInit"):
        if t[k] not in PERM:
            raise NotFound(f"{k}: constant not found in FortranContainer.__init__ ({t[k]!r})")
    # the bare statement must set both child_permission and (for non-types) self.permission
    bare_sets = {"child": False, "self": False}
    for node in ast.walk(init):
        if isinstance(node, ast.If) and isinstance(node.test, ast.Compare) and _strs(node.test.comparators[0]) == t["bareWords"] \
                and isinstance(node.test.left, ast.Name) and node.test.left.id == "line_lower":
            for sub in ast.walk(ast.Module(body=node.body, type_ignores=[])):
                if isinstance(sub, ast.Assign) and isinstance(sub.value, ast.Name) and sub.value.id == "line_lower":
                    if isinstance(sub.targets[0], ast.Name) and sub.targets[0].id == "child_permission":
                        bare_sets["child"] = True
                    if _is_self_attr(sub.targets[0], "permission"):
                        bare_sets["self"] = True
    t["bareSetsChild"] = bare_sets["child"]
    t["bareSetsSelf"] = bare_sets["self"]
    # default of inherited_permission in FortranBase.__init__
    base = _func(tree, "FortranBase", "__init__")
    names = [a.arg for a in base.args.args]
    defaults = dict(zip(names[len(names) - len(base.args.defaults):], base.args.defaults))
    d = defaults.get("inherited_permission")
    if not (isinstance(d, ast.Constant) and d.value in PERM):
        raise NotFound("FortranBase.__init__: default of inherited_permission")
    t["moduleInit"] = d.value
    # the permissions that put an entity into a module's pub_* tables
    t["exportWords"] = _one(_in_lists(_func(tree, "FortranModule", "_cleanup")), "FortranModule._cleanup should_be_public")
    t.update(probe_getter())
    t.update(probe_decl_names())
    return t


def probe_decl_names() -> dict:
    """Character tables of the name keying of declarations, measured on the code under test (see the module
    docstring).  Every probe is a real parse of a three-line module."""
    from harness import common

    common.import_ford()
    import ford.sourceform as sf
    import ford.utils
    from ford.settings import ProjectSettings

    chars = [chr(i) for i in range(32, 127)]
    with common.scratch_dir("c04-tr-") as d:
        d = Path(d)
        settings = ProjectSettings(src_dir=[d], preprocess=False, dbg=True, warn=False)

        def variables(decl):
            f = d / "probe.f90"
            f.write_text(f"module c04_tr_probe\n{decl}\nend module c04_tr_probe\n")
            sf.namelist = sf.NameSelector()
            try:
                with common.quiet():
                    src = sf.FortranSourceFile(str(f), settings)
                return [(v.name, v.dimension) for m in src.modules for v in m.variables]
            except Exception:  # this character breaks the statement: not a member of either table
                return None

        if variables("integer :: ab") != [("ab", "")]:
            raise NotFound("probe_decl_names: `integer :: ab` is not parsed as the declaration of `ab`")
        drop = [c for c in chars if variables(f"integer :: ab{c}(2)") == [("ab", "(2)")]]
        cut = [c for c in chars if variables(f"integer :: ab{c}2") == [("ab", c + "2")]]
    if not cut:
        raise NotFound("probe_decl_names: no character ends the name of an entity-decl (array-spec not recognised)")
    # characters after which a top-level comma no longer splits (they change paren_split's nesting level) ...
    level = [c for c in chars if c != "," and len(ford.utils.paren_split(",", "a" + c + ",b")) == 1]
    # ... and the pairs (opener, closer) that bring it back to zero
    pairs = [o + c for o in level for c in level if len(ford.utils.paren_split(",", o + "a" + c + ",b")) == 2]
    return {"declDropChars": drop, "cutChars": cut, "splitLevelChars": level, "splitPairs": pairs}


def probe_getter() -> dict:
    """Truth table of the property `FortranProcedure.permission`, evaluated on stub objects of the real
    classes (no parsing involved): which kinds of parent make a procedure report the parent's permission."""
    from harness import common

    common.import_ford()
    import ford.sourceform as sf

    out = {}
    for key, cls, generic in (("readGeneric", sf.FortranInterface, True), ("readWrapper", sf.FortranInterface, False),
                              ("readWrapperMP", sf.FortranModuleProcedureInterface, False),
                              ("readModule", sf.FortranModule, None)):
        seen = set()
        for pcls in (sf.FortranSubroutine, sf.FortranFunction):
            try:
                parent = object.__new__(cls)
                if generic is not None and cls is sf.FortranInterface:
                    parent.generic = generic
                parent.permission = "parent"
                proc = object.__new__(pcls)
                proc.permission = "own"
                proc.parent = parent
                got = proc.permission
            except Exception as e:  # the getter needs something the stub does not have
                raise NotFound(f"FortranProcedure.permission could not be evaluated on a stub ({key}): {type(e).__name__}: {e}")
            if got not in ("own", "parent"):
                raise NotFound(f"FortranProcedure.permission returned {got!r} on a stub ({key})")
            seen.add(got == "parent")
        if len(seen) != 1:
            raise NotFound(f"FortranProcedure.permission differs between subroutines and functions ({key})")
        out[key] = seen.pop()
    if out.pop("readWrapperMP") != out["readWrapper"]:
        raise NotFound("FortranProcedure.permission treats FortranInterface(generic=False) and "
                       "FortranModuleProcedureInterface differently")
    return out


def render(t: dict) -> str:
    def perms(ws):
        return "[" + ", ".join(PERM[w] for w in ws) + "]"

    def cats(ns):
        return "[" + ", ".join(CAT[n] for n in ns) + "]"

    L = ["/- GENERATED by translate/c04.py from ford/sourceform.py - do not edit -/",
         "import FordModel.AccessTypes", "namespace Ford.Access", ""]
    for k in ("bareWords", "varAttrWords", "typeAttrWords", "bindAttrWords", "applyWords", "applyVarWords"):
        L.append(f"def {k} : List Perm := {perms(t[k])}")
    L.append(f"def exportWords : List Perm := {perms(t['exportWords'])}")
    L.append(f"def itemPasses : List Cat := {cats(t['itemPasses'])}")
    L.append(f"def attribPasses : List Cat := {cats(t['attribPasses'])}")
    L.append(f"def publicListCats : List Cat := {cats(t['publicListCats'])}")
    L.append(f"def publicWord : Perm := {PERM[t['publicWord']]}")
    for k in ("srcSubroutine", "srcFunction", "srcType", "srcInterface", "srcBoundProc", "srcVariables"):
        L.append(f"def {k} : Src := {t[k]}")
    for k in ("typeChildInit", "containsReset", "submoduleInit", "moduleInit"):
        L.append(f"def {k} : Perm := {PERM[t[k]]}")
    for k in ("bareSetsChild", "bareSetsSelf", "readGeneric", "readWrapper", "readModule"):
        L.append(f"def {k} : Bool := {'true' if t[k] else 'false'}")

    def ch(c):
        return "'\\''" if c == "'" else "'\\\\'" if c == "\\" else f"'{c}'"

    for k in ("declDropChars", "cutChars", "splitLevelChars"):
        L.append(f"def {k} : List Char := [" + ", ".join(ch(c) for c in t[k]) + "]")
    L.append("def splitPairs : List (Char × Char) := [" + ", ".join(f"({ch(p[0])}, {ch(p[1])})" for p in t["splitPairs"]) + "]")
    L += ["", "end Ford.Access", ""]
    return "\n".join(L)


def translate():
    from harness import common

    t = extract(common.REPO)
    common.write_if_changed(common.LEAN / "FordModel" / "Generated" / "C04.lean", render(t))
    return t
