"""C04 translator: measures the table-shaped parts of FORD's permission mechanism on the code under test and writes
lean/FordModel/Generated/C04.lean.

Round 5: every table is obtained by **running the real code on minimal probe programs** (a few hundred tiny
modules / submodules / derived types, parsed with `FortranSourceFile`, plus two small projects that are correlated),
never by reading the source text.  A table therefore follows what the code *does*: renaming a local, hoisting a word
list into a constant, extracting a helper, turning an if/elif chain into a lookup or re-ordering independent
statements leaves every table as it is, while a change of behaviour on the probe programs changes a table and
thereby a proof obligation (`generated_tables_sound`, `apply_tables_sound`, `implementation_tables_sound`, ...).

Measured (all on the working tree, every run):
  * the access words recognised
      - on a declaration            `integer, <w> :: v`                   varAttrWords
      - on a derived-type statement `type, <w> :: t`                      typeAttrWords
      - on a binding                `procedure, <w> :: b => impl`         bindAttrWords
      - in an attribute statement   `<w> :: name`, per entity list        applyWords (the five item lists must
        agree), applyVarWords (variables), and - when process_attribs walks them - the interface bodies of a generic
        interface (must agree with applyWords)
      - as a bare statement         `<w>`                                 bareWords
  * the **transition tables** of the attribute-statement loops: for every permission `cur` an entity can have when
    process_attribs starts and every access word `w` of a statement naming it, the permission afterwards
    (`itemTrans`, `varTrans`: triples (cur, w, result)).  The model has "a recognised word overwrites" built in;
    `apply_tables_sound` proves the measured tables say exactly that.
  * the same transitions for the objects FORD keeps for a **separate module procedure whose body stands in the module
    of its interface** (`probe_own_bodies`): `sepBodyTrans` (long-form body, a member of `subroutines`/`functions`),
    `sepIfaceTrans` (the interface entries), `sepShortTrans` (short-form body, `modprocedures`);
    `own_module_body_tables_sound` proves the first two say "a recognised word overwrites" and the third is either
    that or "nothing reaches the body" (the known defect)
  * the permission a child inherits, for every child kind, in a module / submodule after every sequence of at most
    one bare statement, and in the component part / binding part of a derived type (type public / private) after
    `private`/`public`/`protected` before / after CONTAINS.  The thirteen structural parameters of the model
    (moduleInit, submoduleInit, typeChildInit, containsReset, bareWords, bareSetsChild, bareSetsSelf, which of
    `self.permission` / `child_permission` each of the six child constructors receives) are **fitted** to these
    observations with a Python transcript of the model's inheritance rules (`predict_unit`, `predict_type`): the
    preferred tuple is tried first, then all others by increasing distance; no consistent tuple => tie broken.
    Where the two permissions can never differ (e.g. a subroutine of a module) the parameter is not identifiable and
    the preferred value stands - exactly the cases in which a change of that argument is harmless.
  * the order in which process_attribs looks the entity lists up and forgets the names, by handing it an `attr_dict`
    that logs its accesses (itemPasses, attribPasses, specLoopInSource, delAfterLoopInSource); the categories and
    the word of `public_list` (publicListCats, publicWord) from the list it leaves behind
  * the permissions that put an entity into the pub_* tables (exportWords), from the tables of the probe modules
  * the truth table of the getter `FortranProcedure.permission` (stub objects; readGeneric / readWrapper / readModule)
  * whether `correlate` hands the accessibility of a separate module procedure's interface to its implementation in
    a submodule (`implShortTakesIface`: `module procedure f ... end procedure`, `implLongTakesIface`:
    `module subroutine f ...`), on a real project
  * the character tables of the name keying (`declDropChars`, `cutChars`, `splitLevelChars`, `splitPairs`)
A probe that cannot be evaluated, or an observation the model cannot express, raises (=> "tie broken", never a pass).
"""
from __future__ import annotations

import itertools
from collections import defaultdict
from pathlib import Path

PERM = {"public": ".pub", "private": ".priv", "protected": ".prot"}
W = ["public", "private", "protected"]
CAT = {"functions": ".func", "subroutines": ".sub", "types": ".type", "interfaces": ".iface",
       "absinterfaces": ".absIface", "variables": ".var"}
# child kinds of a module / submodule: how they are written, in which list they are found, which parameter of the
# model says what they inherit
KINDS = ["var", "type", "generic", "plain", "abstract", "sub", "func"]
LIST_OF = {"var": "variables", "type": "types", "generic": "interfaces", "plain": "interfaces",
           "abstract": "absinterfaces", "sub": "subroutines", "func": "functions"}
SRC_OF = {"var": "srcVariables", "type": "srcType", "generic": "srcInterface", "plain": "srcInterface",
          "abstract": "srcInterface", "sub": "srcSubroutine", "func": "srcFunction"}


class NotFound(Exception):
    pass


# ---------------------------------------------------------------------------
# probe programs
# ---------------------------------------------------------------------------


def decl(kind, name, attr=None):
    """(specification-part lines, procedure-part lines) declaring one entity of the given kind"""
    a = f", {attr}" if attr else ""
    if kind == "var":
        return [f"integer{a} :: {name}"], []
    if kind == "type":
        return [f"type{a} :: {name}", "  integer :: c", f"end type {name}"], []
    if kind == "generic":
        return [f"interface {name}", f"  subroutine {name}_body(x)", "    integer :: x", f"  end subroutine {name}_body",
                f"end interface {name}"], []
    if kind in ("plain", "abstract"):
        return [("abstract " if kind == "abstract" else "") + "interface", f"  subroutine {name}(x)", "    integer :: x",
                f"  end subroutine {name}", "end interface"], []
    if kind == "sub":
        return [], [f"subroutine {name}(x)", "  integer :: x", f"end subroutine {name}"]
    if kind == "func":
        return [], [f"function {name}(x) result(r)", "  integer :: x, r", f"end function {name}"]
    raise ValueError(kind)


def unit_text(name, sub, spec, procs):
    head = f"submodule (c04_tr_host) {name}" if sub else f"module {name}"
    tail = f"end submodule {name}" if sub else f"end module {name}"
    body = ["  " + x for x in spec]
    if procs:
        body += ["contains"] + ["  " + x for x in procs]
    return "\n".join([head] + body + [tail]) + "\n"


class Prober:
    """parses probe units with the code under test (`FortranSourceFile`, no project, no correlate)"""

    def __init__(self, d: Path):
        from harness import common

        self.common = common
        common.import_ford()
        import ford.sourceform as sf
        from ford.settings import ProjectSettings

        self.sf = sf
        self.d = d
        self.settings = ProjectSettings(src_dir=[d], preprocess=False, dbg=True, warn=False,
                                        display=["public", "private", "protected"])
        self.n = 0
        self.parses = 0

    def fresh(self, prefix="c04_tr_u"):
        self.n += 1
        return f"{prefix}{self.n}"

    def _parse_file(self, text):
        f = self.d / "probe.f90"
        f.write_text(text)
        self.sf.namelist = self.sf.NameSelector()
        self.parses += 1
        with self.common.quiet():
            src = self.sf.FortranSourceFile(str(f), self.settings)
        return {u.name.lower(): u for u in list(src.modules) + list(src.submodules)}

    def parse_many(self, texts: dict) -> dict:
        """{unit name: text} -> {unit name: parsed unit or None}.  One parse for all; if that fails, one each."""
        try:
            units = self._parse_file("\n".join(texts.values()))
            if all(n in units for n in texts):
                return {n: units[n] for n in texts}
        except Exception:
            pass
        out = {}
        for n, t in texts.items():
            try:
                out[n] = self._parse_file(t).get(n)
            except Exception:
                out[n] = None
        return out


def find(unit, kind, name):
    for x in getattr(unit, LIST_OF[kind], []):
        if x.name.lower() == name:
            return x
    return None


# ---------------------------------------------------------------------------
# the model's inheritance rules, transcribed (Access.lean: `step`, `tstep`, `mkEnts`, `pick`)
# ---------------------------------------------------------------------------

PARAMS = ["moduleInit", "submoduleInit", "typeChildInit", "containsReset", "bareWords", "bareSetsChild", "bareSetsSelf",
          "srcSubroutine", "srcFunction", "srcType", "srcInterface", "srcBoundProc", "srcVariables"]
# where the search starts (a tuple is accepted only if it reproduces *every* observation)
PREFERRED = {"moduleInit": "public", "submoduleInit": "private", "typeChildInit": "public", "containsReset": "public",
             "bareWords": ("public", "private", "protected"), "bareSetsChild": True, "bareSetsSelf": True,
             "srcSubroutine": ".self", "srcFunction": ".self", "srcType": ".self", "srcInterface": ".self",
             "srcBoundProc": ".child", "srcVariables": ".child"}


def _subsets(ws):
    return [tuple(w for w in ws if w in s) for r in range(len(ws), -1, -1) for s in itertools.combinations(ws, r)]


DOMAIN = {"moduleInit": W, "submoduleInit": W, "typeChildInit": W, "containsReset": W, "bareWords": _subsets(W),
          "bareSetsChild": [True, False], "bareSetsSelf": [True, False],
          **{k: [".self", ".child"] for k in PARAMS if k.startswith("src")}}


def predict_unit(P, sub, hist, kind):
    """permission a child of `kind` inherits in a module / submodule after the bare statements `hist`"""
    perm = child = P["submoduleInit"] if sub else P["moduleInit"]
    for w in hist:
        if w in P["bareWords"]:
            if P["bareSetsChild"]:
                child = w
            if P["bareSetsSelf"]:
                perm = w
    return perm if P[SRC_OF[kind]] == ".self" else child


def predict_type(P, tperm, pre, post, which):
    """permission a component (declared after the bare statements `pre`) / a binding (after `pre`, CONTAINS, `post`)
    inherits in a derived type whose own permission is `tperm`"""
    child = P["typeChildInit"]
    for w in pre:
        if w in P["bareWords"] and P["bareSetsChild"]:
            child = w
    if which == "comp":
        return tperm if P["srcVariables"] == ".self" else child
    child = P["containsReset"]
    for w in post:
        if w in P["bareWords"] and P["bareSetsChild"]:
            child = w
    return tperm if P["srcBoundProc"] == ".self" else child


def fit(observations):
    """observations: list of (predictor, args, observed).  First parameter tuple (preferred one first, then by
    increasing number of parameters that differ from it) that reproduces all of them."""

    def ok(P):
        return all(f(P, *args) == got for f, args, got in observations)

    if ok(PREFERRED):
        return dict(PREFERRED)
    combos = itertools.product(*[DOMAIN[k] for k in PARAMS])
    ranked = sorted(combos, key=lambda c: sum(1 for k, v in zip(PARAMS, c) if PREFERRED[k] != v))
    for c in ranked:
        P = dict(zip(PARAMS, c))
        if ok(P):
            return P
    bad = [(f.__name__, args, got, f(PREFERRED, *args)) for f, args, got in observations if f(PREFERRED, *args) != got]
    raise NotFound("no setting of the model's structural parameters reproduces what children inherit in the probe "
                   f"programs; against the preferred setting: {bad[:4]}")


# ---------------------------------------------------------------------------
# measurements
# ---------------------------------------------------------------------------


def measure_inheritance(pr: Prober):
    """what every child kind inherits: units x bare-statement histories, derived types x bare statements around
    CONTAINS.  Returns (fit observations, lookup tables used by the later probes)."""
    texts, meta = {}, {}
    hists = [()] + [(w,) for w in W] + [("private", "public"), ("public", "private"), ("protected", "private")]
    for sub in (False, True):
        for h in hists:
            name = pr.fresh()
            spec, procs = list(h), []
            for k in KINDS:
                s, p = decl(k, f"e_{k}")
                spec += s
                procs += p
            texts[name] = unit_text(name, sub, spec, procs)
            meta[name] = (sub, h)
    # derived types
    tname = pr.fresh()
    tspec, tmeta, tattr_of = [], {}, {}
    k = 0
    for tattr in (None, "public", "private"):
        for pre in [()] + [(w,) for w in W]:
            for post in [()] + [(w,) for w in W]:
                k += 1
                t = f"t{k}"
                tspec += [f"type{', ' + tattr if tattr else ''} :: {t}"] + [f"  {w}" for w in pre] + ["  integer :: c1", "contains"] \
                    + [f"  {w}" for w in post] + ["  procedure :: b1 => impl", f"end type {t}"]
                tmeta[t] = (pre, post)
                tattr_of[t] = tattr
    texts[tname] = unit_text(tname, False, tspec, ["subroutine impl(x)", "  integer :: x", "end subroutine impl"])
    units = pr.parse_many(texts)
    obs = []
    inherited = {}  # (sub, hist, kind) -> permission
    for name, (sub, h) in meta.items():
        u = units[name]
        if u is None:
            raise NotFound(f"probe unit could not be parsed: {texts[name]!r}")
        for kind in KINDS:
            e = find(u, kind, f"e_{kind}")
            if e is None:
                raise NotFound(f"probe: the {kind} of {'a submodule' if sub else 'a module'} is not in `{LIST_OF[kind]}`")
            if e.permission not in PERM:
                raise NotFound(f"probe: {kind} reports permission {e.permission!r}")
            obs.append((predict_unit, (sub, h, kind), e.permission))
            inherited[(sub, h, kind)] = e.permission
    u = units[tname]
    if u is None:
        raise NotFound("probe module with derived types could not be parsed")
    tinh = {}
    for t in u.types:
        pre, post = tmeta[t.name.lower()]
        comps = [c for c in t.variables if c.name.lower() == "c1"]
        binds = [b for b in t.boundprocs if b.name.lower() == "b1"]
        if len(comps) != 1 or len(binds) != 1:
            raise NotFound("probe: component / binding of a probe type not found")
        obs.append((predict_type, (t.permission, pre, post, "comp"), comps[0].permission))
        obs.append((predict_type, (t.permission, pre, post, "bind"), binds[0].permission))
        tinh[(tattr_of[t.name.lower()], pre, post)] = (t.permission, binds[0].permission)
    return obs, inherited, tinh


def recognised(w, inherited, observed, what):
    if observed == w and inherited != w:
        return True
    if observed == inherited and inherited != w:
        return False
    raise NotFound(f"{what}: with the word `{w}` the entity reports {observed!r} (it inherits {inherited!r})")


def measure_words(pr: Prober, inherited, tinh):
    """which access words are recognised where, and what an attribute statement does to an entity that already has
    a permission (transition tables)"""
    t = {}
    # --- attributes of declarations -------------------------------------------------------------------------
    texts, meta = {}, {}
    for kind, key in (("var", "varAttrWords"), ("type", "typeAttrWords")):
        for w in W:
            ctx = [sub for sub in (False, True) if inherited[(sub, (), kind)] != w]
            if not ctx:
                raise NotFound(f"{key}: no probe context in which a {kind} does not inherit `{w}` already")
            name = pr.fresh()
            s, p = decl(kind, "e1", w)
            texts[name] = unit_text(name, ctx[0], s, p)
            meta[name] = (key, kind, w, inherited[(ctx[0], (), kind)])
    # bindings: a binding part in which the binding does not inherit `w`
    bname = pr.fresh()
    bspec, bmeta = [], {}
    for i, w in enumerate(W):
        # a binding part (type attribute, bare statements after CONTAINS) in which a binding does not inherit `w`
        ctx = [key for key, (tp, inh) in sorted(tinh.items(), key=lambda x: (x[0][0] is not None, len(x[0][2]), str(x)))
               if inh != w and not key[1]]
        if not ctx:
            raise NotFound(f"bindAttrWords: no probe context in which a binding does not inherit `{w}` already")
        tattr, pre, post = ctx[0]
        bspec += [f"type{', ' + tattr if tattr else ''} :: bt{i}"] + ["  integer :: c1", "contains"] + [f"  {x}" for x in post] \
            + [f"  procedure, {w} :: b1 => impl", f"end type bt{i}"]
        bmeta[f"bt{i}"] = (w, tinh[ctx[0]][1], tinh[ctx[0]][0])
    texts[bname] = unit_text(bname, False, bspec, ["subroutine impl(x)", "  integer :: x", "end subroutine impl"])
    units = pr.parse_many(texts)
    for key in ("varAttrWords", "typeAttrWords", "bindAttrWords"):
        t[key] = []
    for name, (key, kind, w, inh) in meta.items():
        u = units[name]
        e = find(u, kind, "e1") if u is not None else None
        if e is None:
            raise NotFound(f"{key}: probe declaration with the attribute `{w}` was not parsed")
        if recognised(w, inh, e.permission, key):
            t[key].append(w)
    u = units[bname]
    if u is None:
        raise NotFound("bindAttrWords: probe module could not be parsed")
    for ty in u.types:
        w, inh, tp = bmeta[ty.name.lower()]
        if ty.permission != tp:
            raise NotFound("bindAttrWords: probe type has another permission than in the inheritance probe")
        b = [b for b in ty.boundprocs if b.name.lower() == "b1"]
        if len(b) != 1:
            raise NotFound(f"bindAttrWords: binding with the attribute `{w}` was not parsed")
        if recognised(w, inh, b[0].permission, "bindAttrWords"):
            t["bindAttrWords"].append(w)

    # --- attribute statements: every entity list x every current permission x every word -----------------------------
    # ways to give an entity of a kind the permission `cur` before process_attribs runs
    def ways(kind):
        out = {}
        for sub in (False, True):
            for h in [()] + [(w,) for w in W]:
                out.setdefault(inherited[(sub, h, kind)], (sub, h, None))
        attr_key = {"var": "varAttrWords", "type": "typeAttrWords"}.get(kind)
        if attr_key:
            for w in t[attr_key]:
                out[w] = (False, (), w)  # the attribute is the plainest way
        return out

    texts, meta = {}, {}
    for kind in KINDS + ["specific"]:
        base = "generic" if kind == "specific" else kind
        for cur, (sub, h, attr) in ways(base).items():
            for w in W:
                name = pr.fresh()
                s, p = decl(base, "e1", attr)
                target = "e1_body" if kind == "specific" else "e1"
                stmt = f"{w} :: {target}"
                spec = list(h) + ([stmt] + s if pr.n % 2 else s + [stmt])  # before / after the declaration
                texts[name] = unit_text(name, sub, spec, p)
                meta[name] = (kind, cur, w, sub)
    units = pr.parse_many(texts)
    trans = defaultdict(dict)  # kind -> {(cur, w): result}
    exports = defaultdict(set)  # (table) -> {(permission, listed)}
    for name, (kind, cur, w, sub) in meta.items():
        u = units[name]
        if u is None:
            raise NotFound(f"attribute statement probe could not be parsed: {texts[name]!r}")
        if kind == "specific":
            g = find(u, "generic", "e1")
            e = [r for r in getattr(g, "routines", []) if r.name.lower() == "e1_body"] if g is not None else []
            e = e[0] if e else None
        else:
            e = find(u, kind, "e1")
        if e is None:
            raise NotFound(f"attribute statement probe: the {kind} named in `{w} :: ...` is not in its list")
        if e.permission not in PERM:
            raise NotFound(f"attribute statement probe: {kind} reports permission {e.permission!r}")
        trans[kind][(cur, w)] = e.permission
        if not sub and kind != "specific":
            tab = {"var": "pub_vars", "type": "pub_types", "abstract": "pub_absints"}.get(kind, "pub_procs")
            exports[tab].add((e.permission, "e1" in {k.lower() for k in getattr(u, tab, {})}))

    def words_of(kind):
        """the words an attribute statement applies to this kind; the model can express only 'a recognised word
        overwrites whatever is there, any other leaves it' - the transition table itself is proved to say that"""
        ws = []
        for w in W:
            moved = [cur for (cur, w_), res in trans[kind].items() if w_ == w and cur != w and res == w]
            if moved:
                ws.append(w)
        return ws

    item_kinds = ["func", "sub", "type", "generic", "plain", "abstract"]
    per_kind = {k: words_of(k) for k in item_kinds}
    if len({tuple(v) for v in per_kind.values()}) != 1:
        raise NotFound(f"process_attribs applies different access words to different entity lists: {per_kind}")
    t["applyWords"] = per_kind["func"]
    t["applyVarWords"] = words_of("var")
    merged = {}
    for k in item_kinds:
        for cw, res in trans[k].items():
            if merged.setdefault(cw, res) != res:
                raise NotFound(f"process_attribs: an attribute statement `{cw[1]}` turns a {cw[0]} entity into {res} in "
                               f"the list of {k} but into {merged[cw]} in another list")
    t["itemTrans"] = sorted((c, w, r) for (c, w), r in merged.items())
    t["varTrans"] = sorted((c, w, r) for (c, w), r in trans["var"].items())
    t["_specTrans"] = dict(trans["specific"])
    # --- the pub_* tables -------------------------------------------------------------------------------------------
    verdict = {}
    for tab, seen in exports.items():
        for perm, listed in seen:
            if verdict.setdefault(perm, listed) != listed:
                raise NotFound(f"export tables: entities with permission {perm} are listed in one table / case and not in another")
    if set(verdict) != set(W):
        raise NotFound(f"export tables: permissions {sorted(set(W) - set(verdict))} not reached by any probe")
    t["exportWords"] = [w for w in W if verdict[w]]
    return t


class LoggingDict(defaultdict):
    """`attr_dict` that records in which order names are looked up and forgotten"""

    def __init__(self, other, log):
        super().__init__(list, other)
        self.log = log

    def __getitem__(self, k):
        self.log.append(("get", k))
        return super().__getitem__(k)

    def get(self, k, default=None):
        self.log.append(("get", k))
        return super().get(k, default)

    def __contains__(self, k):
        self.log.append(("get", k))
        return super().__contains__(k)

    def __delitem__(self, k):
        self.log.append(("del", k))
        return super().__delitem__(k)

    def pop(self, k, *a):
        self.log.append(("del", k))
        return super().pop(k, *a)


def measure_passes(pr: Prober, apply_words, apply_var_words, spec_trans, getter_redirects):
    """which entity lists process_attribs serves, in which order, where it forgets the names, and public_list.
    Behaviour first: which lists react to an attribute statement is known from `measure_words`; whether *every*
    entity of a name sees the statement from two probe modules; the order of the lists - which only matters when
    the first entity of a name takes the statement away - from an `attr_dict` that logs its accesses."""
    sf = pr.sf
    name = pr.fresh()
    order = ["func", "sub", "type", "generic", "plain", "abstract", "var"]
    spec, procs = ["public :: zz_pub", "private :: zz_priv", "protected :: zz_prot"], []
    for k in reversed(order):  # declaration order differs from every plausible pass order
        s, p = decl(k, f"e_{k}")
        spec += s
        procs += p
    same1, same2 = pr.fresh(), pr.fresh()
    texts = {
        name: unit_text(name, False, spec, procs),
        # one identifier, two entities: a derived type and its constructor interface; a generic named like its specific
        same1: unit_text(same1, False, ["private", "public :: t"] + decl("type", "t")[0] + ["interface t", "  module procedure f",
                                                                                            "end interface t"],
                         ["function f() result(r)", "  type(t) :: r", "end function f"]),
        same2: unit_text(same2, False, ["private", "public :: s", "interface s", "  module procedure s", "end interface s"],
                         decl("sub", "s")[1]),
    }
    log = []
    orig = sf.FortranCodeUnit.process_attribs

    def logged(self):
        if getattr(self, "name", "").lower() == name and hasattr(self, "attr_dict"):
            self.attr_dict = LoggingDict(self.attr_dict, log)
        return orig(self)

    sf.FortranCodeUnit.process_attribs = logged
    try:
        units = pr.parse_many(texts)
    finally:
        sf.FortranCodeUnit.process_attribs = orig
    u = units[name]
    if u is None or units[same1] is None or units[same2] is None:
        raise NotFound("process_attribs probe modules could not be parsed")
    t = {}
    reacts = ["functions", "subroutines", "types", "interfaces", "absinterfaces"] if apply_words else []
    # --- interface bodies of generic interfaces --------------------------------------------------------------------
    if getter_redirects:
        # a procedure of a generic interface reports the generic's permission (readGeneric): what the loop stores
        # in it cannot be observed
        spec_trans = {}
    t["specLoopInSource"] = any(res != cur for (cur, w), res in spec_trans.items())
    if t["specLoopInSource"]:
        for (cur, w), res in spec_trans.items():
            if res != (w if w in apply_words else cur):
                raise NotFound("process_attribs: the interface bodies of generic interfaces are given other access words "
                               "than the entities of the item loop")
    # --- one name, two entities ------------------------------------------------------------------------------------
    try:
        pair1 = (find(units[same1], "type", "t").permission, find(units[same1], "generic", "t").permission)
        pair2 = (find(units[same2], "sub", "s").permission, find(units[same2], "generic", "s").permission)
    except AttributeError:
        raise NotFound("process_attribs: type + constructor interface / procedure + generic of one name not found")
    every_entity = pair1 == ("public", "public") and pair2 == ("public", "public")
    # --- the log ---------------------------------------------------------------------------------------------------
    cat_of = {f"e_{k}": LIST_OF[k] for k in order}
    gets = [k for op, k in log if op == "get"]
    seq = [cat_of[k] for k in gets if k in cat_of]
    passes = [c for i, c in enumerate(seq) if i == 0 or seq[i - 1] != c]
    item = [c for c in passes if c != "variables"]
    item_names = [k for k in cat_of if cat_of[k] != "variables"]
    usable = len(passes) == len(set(passes)) and set(item) == set(reacts) and all(k in gets for k in item_names if cat_of[k] in reacts)
    t["delAfterLoopInSource"] = None
    if usable:
        if "variables" in passes and passes[-1] != "variables":
            raise NotFound("process_attribs: variable loop now precedes the item loop")
        if "e_generic_body" in gets:
            if gets.index("e_generic_body") > min(gets.index(k) for k in cat_of if k in gets):
                raise NotFound("process_attribs: the interface bodies of generic interfaces are looked up after other "
                               "entities (the model applies the access statements to them first)")
            if ("del", "e_generic_body") in log:
                raise NotFound("process_attribs: the loop over the interface bodies forgets attr_dict entries")
        t["itemPasses"] = item
        # where the names of the first loop are forgotten
        last_get = max(i for i, (op, k) in enumerate(log) if op == "get" and k in item_names)
        dels = [i for i, (op, k) in enumerate(log) if op == "del" and k in item_names]
        if dels and min(dels) > last_get:
            t["delAfterLoopInSource"] = True  # every name of the first loop is forgotten when the loop is over
        elif dels:
            # per entity: between the look-up of a name and its deletion no other entity of the first loop is looked up
            def own_window(i):
                k = log[i][1]
                js = [x for x in range(i) if log[x] == ("get", k)]
                return bool(js) and not any(op == "get" and n in item_names and n != k for op, n in log[js[-1]:i])
            if all(own_window(i) for i in dels):
                t["delAfterLoopInSource"] = False
    elif every_entity or not reacts:
        # every entity of a name sees the statement: the order in which the lists are served has no effect
        t["itemPasses"] = list(reacts)
    else:
        raise NotFound("process_attribs: an attribute statement reaches only one of two entities of one name "
                       f"(type / constructor {pair1}, procedure / generic {pair2}), so the order of the entity lists "
                       f"matters, but it could not be observed (names looked up in attr_dict: {gets[:12]})")
    if bool(apply_var_words) and usable and "variables" not in passes:
        raise NotFound("process_attribs: attribute statements reach variables but their names are never looked up in attr_dict")
    t["attribPasses"] = t["itemPasses"] + ["variables"]
    # public_list: which permission, which lists, in which order
    pl = [x.lower() for x in getattr(u, "public_list", [])]
    listed = [cat_of[x] for x in pl if x in cat_of]
    t["publicListCats"] = [c for i, c in enumerate(listed) if i == 0 or listed[i - 1] != c]
    if len(t["publicListCats"]) != len(set(t["publicListCats"])):
        raise NotFound(f"public_list: entity lists interleaved: {listed}")
    left = [x for x in pl if x.startswith("zz_")]
    if len(left) != 1 or left[0][3:] not in ("pub", "priv", "prot"):
        raise NotFound(f"public_list: of the undeclared names of `public ::` / `private ::` / `protected ::` it keeps {left}")
    t["publicWord"] = {"pub": "public", "priv": "private", "prot": "protected"}[left[0][3:]]
    perms = {find(u, k, f"e_{k}").permission for k in order}
    if perms != {t["publicWord"]}:
        raise NotFound(f"public_list probe: entities of a module without access statements report {perms}, the word of public_list is {t['publicWord']}")
    if set(t["publicListCats"]) != set(CAT):
        # every entity of the probe module is public: a list that is missing is not part of public_list
        pass
    for c in t["publicListCats"]:
        if c not in CAT:
            raise NotFound(f"unknown entity list {c!r} in public_list")
    # an entity that is not public is not listed
    name2 = pr.fresh()
    spec, procs = ["private"], []
    for k in order:
        s, p = decl(k, f"e_{k}")
        spec += s
        procs += p
    u2 = pr.parse_many({name2: unit_text(name2, False, spec, procs)})[name2]
    if u2 is None:
        raise NotFound("public_list probe module could not be parsed")
    for k in order:
        e = find(u2, k, f"e_{k}")
        if (e.permission == t["publicWord"]) != (f"e_{k}" in [x.lower() for x in u2.public_list]) and LIST_OF[k] in t["publicListCats"]:
            raise NotFound(f"public_list: a {k} with permission {e.permission} is {'listed' if e.permission != t['publicWord'] else 'not listed'}")
    return t


def probe_impl() -> dict:
    """Does `correlate` hand the accessibility of the interface of a separate module procedure (in the ancestor
    module) to its implementation in a submodule?  Real project: module with a public and a private interface body,
    child and grandchild submodule implementing them in the short (`module procedure f`) and in the long form."""
    from harness import common

    common.import_ford()
    import ford.sourceform as sf
    from ford.fortran_project import Project
    from ford.settings import ProjectSettings

    names = ["ia", "ib", "ic", "id"]
    ifc = "\n".join(f"    module subroutine {n}(x)\n      integer :: x\n    end subroutine {n}" for n in names)
    text = f"""module c04_tr_anc
  private
  public :: ia, ib
  interface
{ifc}
  end interface
end module c04_tr_anc

submodule (c04_tr_anc) c04_tr_s1
contains
  module procedure ia
    x = 1
  end procedure ia
  module subroutine ib(x)
    integer :: x
  end subroutine ib
end submodule c04_tr_s1

submodule (c04_tr_anc:c04_tr_s1) c04_tr_s2
contains
  module procedure ic
    x = 1
  end procedure ic
  module subroutine id(x)
    integer :: x
  end subroutine id
end submodule c04_tr_s2
"""
    with common.scratch_dir("c04-tr-") as d:
        d = Path(d)
        (d / "p.f90").write_text(text)
        sf.namelist = sf.NameSelector()
        settings = ProjectSettings(src_dir=[d], display=["public", "private", "protected"], dbg=True, preprocess=False,
                                   graph=False, search=False, warn=False)
        try:
            with common.quiet():
                project = Project(settings)
                project.correlate()
        except Exception as e:
            raise NotFound(f"probe project with submodules could not be correlated: {type(e).__name__}: {e}")
    anc = {m.name.lower(): m for m in project.modules}.get("c04_tr_anc")
    subs = {m.name.lower(): m for m in project.submodules}
    if anc is None or set(subs) != {"c04_tr_s1", "c04_tr_s2"}:
        raise NotFound("probe project: ancestor module / submodules not found")
    iface = {i.name.lower(): i.permission for i in anc.interfaces}
    if iface != {"ia": "public", "ib": "public", "ic": "private", "id": "private"}:
        raise NotFound(f"probe project: interfaces of the ancestor module report {iface}")
    own = subs["c04_tr_s1"].permission

    def perm(sub, lists, n):
        got = [x.permission for l in lists for x in getattr(subs[sub], l, []) if x.name.lower() == n]
        if len(got) != 1:
            raise NotFound(f"probe project: implementation {n} of {sub} found {len(got)} times in {lists}")
        return got[0]

    short = [perm("c04_tr_s1", ["modprocedures"], "ia"), perm("c04_tr_s2", ["modprocedures"], "ic")]
    long_ = [perm("c04_tr_s1", ["subroutines", "modsubroutines"], "ib"), perm("c04_tr_s2", ["subroutines", "modsubroutines"], "id")]

    def verdict(got, what):
        if got == [own, own]:
            return False
        if got == ["public", "private"] and own != "public":
            return True
        raise NotFound(f"probe project: {what} implementations of a public / a private interface report {got} "
                       f"(the submodule's own permission is {own})")

    return {"implShortTakesIface": verdict(short, "`module procedure`"), "implLongTakesIface": verdict(long_, "`module subroutine`")}


def probe_own_bodies(pr: Prober) -> dict:
    """The body of a separate module procedure in the module that declares its interface (one entity, two or three
    objects in FORD).  For every module default `cur` (none / bare private) and access word `w`: a module with
    `w :: e1, e2`, the interface bodies `module subroutine e1` / `module function e2`, and in the procedure part the
    long-form body of e1 (`module subroutine e1(x)`) and the short-form body of e2 (`module procedure e2`).
    Measured after process_attribs: `sepBodyTrans` = (cur, w, permission of the long-form body), `sepIfaceTrans` =
    the same for the two interface entries, `sepShortTrans` = for the short-form body."""
    texts, meta = {}, {}
    for cur in ("public", "private"):
        for w in W:
            name = pr.fresh()
            texts[name] = "\n".join([
                f"module {name}"] + (["  private"] if cur == "private" else []) + [
                f"  {w} :: e1, e2",
                "  interface",
                "    module subroutine e1(x)", "      integer :: x", "    end subroutine e1",
                "    module function e2(x) result(r)", "      integer :: x", "      integer :: r", "    end function e2",
                "  end interface",
                "contains",
                "  module subroutine e1(x)", "    integer :: x", "    x = 1", "  end subroutine e1",
                "  module procedure e2", "    r = x", "  end procedure e2",
                f"end module {name}", ""])
            meta[name] = (cur, w)
    units = pr.parse_many(texts)
    body, iface, short = {}, {}, {}
    for name, (cur, w) in meta.items():
        u = units[name]
        if u is None:
            raise NotFound(f"own-module body probe could not be parsed: {texts[name]!r}")
        longs = [x.permission for x in u.subroutines if x.name.lower() == "e1"]
        shorts = [x.permission for x in getattr(u, "modprocedures", []) if x.name.lower() == "e2"]
        ifs = {x.name.lower(): x.permission for x in u.interfaces}
        if len(longs) != 1 or len(shorts) != 1 or set(ifs) != {"e1", "e2"}:
            raise NotFound(f"own-module body probe: long-form bodies {longs}, short-form bodies {shorts}, interface entries "
                           f"{sorted(ifs)} (expected one e1, one e2, interfaces e1 and e2)")
        if ifs["e1"] != ifs["e2"]:
            raise NotFound(f"own-module body probe: `{w} :: e1, e2` leaves the interface entries at {ifs}")
        for v in longs + shorts + list(ifs.values()):
            if v not in PERM:
                raise NotFound(f"own-module body probe: permission {v!r}")
        body[(cur, w)], short[(cur, w)], iface[(cur, w)] = longs[0], shorts[0], ifs["e1"]
    tri = lambda d: sorted((c, w, r) for (c, w), r in d.items())
    return {"sepBodyTrans": tri(body), "sepIfaceTrans": tri(iface), "sepShortTrans": tri(short)}


PAGE_PROBE = """module c04_tr_page
  private
  integer, public :: v1(2) = 0
  type, public :: t1
    private
    integer, public :: c1
    integer :: c2
  contains
    private
    procedure, public :: b1 => impl
    procedure :: b2 => impl
    generic, public :: gb => b1, b2
  end type t1
  public :: g1, e1, a1, s1, f1, ms1, mp1, operator(+)
  interface g1
    subroutine x1(a)
      integer :: a
    end subroutine x1
    module procedure s2
  end interface g1
  interface operator (+)
    module procedure f2
  end interface
  interface
    subroutine e1(a)
      integer :: a
    end subroutine e1
  end interface
  abstract interface
    subroutine a1(a)
      integer :: a
    end subroutine a1
  end interface
  interface
    module subroutine ms1(a)
      integer :: a
    end subroutine ms1
    module subroutine mp1(a)
      integer :: a
    end subroutine mp1
  end interface
contains
  subroutine s1(a)
    integer :: a
  end subroutine s1
  function f1(a) result(r)
    integer :: a, r
    r = a
  end function f1
  function f2(a, b) result(r)
    integer, intent(in) :: a, b
    integer :: r
    r = a
  end function f2
  subroutine s2(a)
    real :: a
  end subroutine s2
  subroutine impl(x)
    class(t1) :: x
  end subroutine impl
  module subroutine ms1(a)
    integer :: a
  end subroutine ms1
  module procedure mp1
    a = 1
  end procedure mp1
end module c04_tr_page
"""
PKIND = {"var": ".var", "type": ".type", "comp": ".comp", "bind": ".bind", "generic": ".generic", "member": ".member",
         "ref": ".ref", "wrapper": ".wrapper", "absiface": ".absIface", "func": ".func", "sub": ".sub", "mproc": ".mproc"}
PSRC = {"own": ".own", "owner": ".owner", "none": ".none"}


def probe_page() -> dict:
    """Whose `permission` does the module page print next to each kind of entity?  A probe module with one entity of
    every kind is parsed and correlated; then **every object gets a unique token as its permission**
    (`c04tok<k>`), the real `mod_page.html` is rendered (ford.output.ModulePage, the project's templates) and read
    with `harness.c04_pages.page_words`.  For every kind of place the token found there is the entity's own
    (`own`), that of the object it is listed under - module, type, generic interface - (`owner`), or there is none
    (`none`); anything else (another object's token, a missing line) cannot be expressed by the model and raises."""
    from harness import common
    from harness.c04_pages import Renderer, page_words

    common.import_ford()
    import ford.sourceform as sf
    from ford.fortran_project import Project
    from ford.settings import ProjectSettings

    with common.scratch_dir("c04-tr-") as d:
        d = Path(d)
        (d / "src").mkdir()
        (d / "src" / "p.f90").write_text(PAGE_PROBE)
        sf.namelist = sf.NameSelector()
        settings = ProjectSettings(src_dir=[d / "src"], output_dir=d / "doc", display=["public", "private", "protected"],
                                   dbg=True, preprocess=False, graph=False, search=False, warn=False, quiet=True,
                                   incl_src=False)
        settings.project_url = str(d / "doc")
        try:
            with common.quiet():
                project = Project(settings)
                project.correlate()
            m = {u.name.lower(): u for u in project.modules}["c04_tr_page"]
            tok = {}
            count = itertools.count(1)

            def mark(o):
                t = f"c04tok{next(count)}"
                o.permission = t
                tok[id(o)] = t
                return t

            by = lambda lst, n: [x for x in lst if x.name.lower() == n][0]
            tm = mark(m)
            t1 = by(m.types, "t1")
            g1 = by(m.interfaces, "g1")
            e1 = by(m.interfaces, "e1")
            a1 = by(m.absinterfaces, "a1")
            s2 = by(m.subroutines, "s2")
            want = {}  # (kind on the page, owner, name) -> (model kind, own token, owner token)
            want[("var", "", "v1")] = ("var", mark(by(m.variables, "v1")), tm)
            tt = mark(t1)
            want[("type", "", "t1")] = ("type", tt, tm)
            want[("comp", "t1", "c2")] = ("comp", mark(by(t1.variables, "c2")), tt)
            mark(by(t1.variables, "c1"))
            want[("bind", "t1", "b2")] = ("bind", mark(by(t1.boundprocs, "b2")), tt)
            for b in t1.boundprocs:
                if id(b) not in tok:
                    mark(b)
            tg = mark(g1)
            want[("generic", "", "g1")] = ("generic", tg, tm)
            want[("member", "g1", "x1")] = ("member", mark(by(g1.routines, "x1")), tg)
            want[("member", "g1", "s2")] = ("ref", mark(s2), tg)
            for r in g1.modprocs:
                mark(r)
            te = mark(e1)
            stored_e = mark(e1.procedure)
            want[("wrapper", "", "e1")] = ("wrapper", te, tm)
            ta = mark(a1)
            stored_a = mark(a1.procedure)
            want[("absiface", "", "a1")] = ("absiface", ta, tm)
            want[("func", "", "f1")] = ("func", mark(by(m.functions, "f1")), tm)
            want[("sub", "", "s1")] = ("sub", mark(by(m.subroutines, "s1")), tm)
            want[("mproc", "", "mp1")] = ("mproc", mark(by(m.modprocedures, "mp1")), tm)
            for lst in (m.interfaces, m.absinterfaces, m.functions, m.subroutines, m.variables):
                for o in lst:
                    if id(o) not in tok:
                        mark(o)
            with common.quiet():
                words = page_words(Renderer(settings, project).module_page(m))
        except NotFound:
            raise
        except Exception as e:
            raise NotFound(f"page probe: {type(e).__name__}: {e}")
    seen = {(k, o, n): w for k, o, n, w in words}
    src = {}
    for key, (kind, own, owner) in want.items():
        if key not in seen:
            raise NotFound(f"page probe: the module page has no {key[0]} line for {key[2]} (found {sorted(seen)})")
        w = seen[key]
        src[kind] = "own" if w == own else "owner" if w == owner else "none" if w == "-" else None
        if src[kind] is None:
            what = "the stored permission of the wrapped procedure" if w in (stored_e, stored_a) else "another object's permission"
            raise NotFound(f"page probe: next to the {kind} {key[2]} the module page prints {what} ({w})")
    return {"pageSrc": [(k, src[k]) for k in PKIND if k in src]}


def extract(repo: Path | None = None) -> dict:
    from harness import common

    t: dict = {}
    with common.scratch_dir("c04-tr-") as d:
        pr = Prober(Path(d))
        obs, inherited, tinh = measure_inheritance(pr)
        t.update(fit(obs))
        t["bareWords"] = list(t["bareWords"])
        t.update(measure_words(pr, inherited, tinh))
        t.update(probe_getter(pr))
        t.update(measure_passes(pr, t["applyWords"], t["applyVarWords"], t.pop("_specTrans"), t["readGeneric"]))
        t.update(probe_own_bodies(pr))
        t["probe_parses"] = pr.parses
    t.update(probe_impl())
    t.update(probe_page())
    t.update(probe_decl_names())
    return t


def probe_decl_names() -> dict:
    """Character tables of the name keying of declarations, measured on the code under test (see the module
    docstring).  Every probe is a real parse of a three-line module."""
    from harness import common

    common.import_ford()
    import ford.sourceform as sf
    import ford.utils
    from ford.settings import ProjectSettings

    chars = [chr(i) for i in range(32, 127)]
    with common.scratch_dir("c04-tr-") as d:
        d = Path(d)
        settings = ProjectSettings(src_dir=[d], preprocess=False, dbg=True, warn=False)

        def variables(decl):
            f = d / "probe.f90"
            f.write_text(f"module c04_tr_probe\n{decl}\nend module c04_tr_probe\n")
            sf.namelist = sf.NameSelector()
            try:
                with common.quiet():
                    src = sf.FortranSourceFile(str(f), settings)
                return [(v.name, v.dimension) for m in src.modules for v in m.variables]
            except Exception:  # this character breaks the statement: not a member of either table
                return None

        if variables("integer :: ab") != [("ab", "")]:
            raise NotFound("probe_decl_names: `integer :: ab` is not parsed as the declaration of `ab`")
        drop = [c for c in chars if variables(f"integer :: ab{c}(2)") == [("ab", "(2)")]]
        cut = [c for c in chars if variables(f"integer :: ab{c}2") == [("ab", c + "2")]]
    if not cut:
        raise NotFound("probe_decl_names: no character ends the name of an entity-decl (array-spec not recognised)")
    # characters after which a top-level comma no longer splits (they change paren_split's nesting level) ...
    level = [c for c in chars if c != "," and len(ford.utils.paren_split(",", "a" + c + ",b")) == 1]
    # ... and the pairs (opener, closer) that bring it back to zero
    pairs = [o + c for o in level for c in level if len(ford.utils.paren_split(",", o + "a" + c + ",b")) == 2]
    return {"declDropChars": drop, "cutChars": cut, "splitLevelChars": level, "splitPairs": pairs}


def probe_getter(pr: Prober) -> dict:
    """Truth table of the getter `FortranProcedure.permission`: which kinds of parent make a procedure report the
    parent's permission instead of its own.  Measured on parsed modules: the parent gets an accessibility the
    procedure's stored one cannot have (an access statement that names the parent only)."""
    g1, g2, w1, m1 = pr.fresh(), pr.fresh(), pr.fresh(), pr.fresh()
    texts = {
        # generic interface named in a statement, its interface body is not
        g1: unit_text(g1, False, ["private :: g"] + decl("generic", "g")[0], []),
        g2: unit_text(g2, False, ["private", "public :: g"] + decl("generic", "g")[0], []),
        # interface body of a plain / an abstract interface block: FORD keeps a wrapper (the interface) and the procedure
        w1: unit_text(w1, False, ["private", "public :: p, a"] + decl("plain", "p")[0] + decl("abstract", "a")[0], []),
        # module procedure of a private module, made public by a statement
        m1: unit_text(m1, False, ["private", "public :: s, f"], decl("sub", "s")[1] + decl("func", "f")[1]),
    }
    units = pr.parse_many(texts)
    if any(u is None for u in units.values()):
        raise NotFound("FortranProcedure.permission: probe modules could not be parsed")
    out = {}
    seen = set()
    for n, want in ((g1, "private"), (g2, "public")):
        g = find(units[n], "generic", "g")
        bodies = [r for r in getattr(g, "routines", []) if r.name.lower() == "g_body"] if g is not None else []
        if g is None or len(bodies) != 1 or g.permission != want:
            raise NotFound(f"FortranProcedure.permission: probe with a generic interface made {want} by a statement: "
                           f"interface reports {getattr(g, 'permission', None)}")
        seen.add(bodies[0].permission == want)
    if len(seen) != 1:
        raise NotFound("FortranProcedure.permission: a procedure of a generic interface follows a `private ::` statement "
                       "naming the generic but not a `public ::` one (or the reverse)")
    out["readGeneric"] = seen.pop()
    seen = set()
    for kind, nm_ in (("plain", "p"), ("abstract", "a")):
        i = find(units[w1], kind, nm_)
        proc = getattr(i, "procedure", None)
        if i is None or proc is None or i.permission != "public":
            raise NotFound(f"FortranProcedure.permission: interface body of a {kind} interface block: wrapper / procedure not found")
        seen.add(proc.permission == "public")
    if len(seen) != 1:
        raise NotFound("FortranProcedure.permission treats the bodies of plain and of abstract interface blocks differently")
    out["readWrapper"] = seen.pop()
    seen = set()
    for kind, nm_ in (("sub", "s"), ("func", "f")):
        e = find(units[m1], kind, nm_)
        if e is None or e.permission not in PERM:
            raise NotFound("FortranProcedure.permission: module procedure of the probe module not found")
        seen.add(e.permission != "public")
    if len(seen) != 1:
        raise NotFound("FortranProcedure.permission differs between subroutines and functions (module procedures)")
    out["readModule"] = seen.pop()
    return out


def render(t: dict) -> str:
    def perms(ws):
        return "[" + ", ".join(PERM[w] for w in ws) + "]"

    def cats(ns):
        return "[" + ", ".join(CAT[n] for n in ns) + "]"

    L = ["/- GENERATED by translate/c04.py by probing ford/sourceform.py - do not edit -/",
         "import FordModel.AccessTypes", "namespace Ford.Access", ""]
    for k in ("bareWords", "varAttrWords", "typeAttrWords", "bindAttrWords", "applyWords", "applyVarWords"):
        L.append(f"def {k} : List Perm := {perms(t[k])}")
    L.append(f"def exportWords : List Perm := {perms(t['exportWords'])}")
    L.append(f"def itemPasses : List Cat := {cats(t['itemPasses'])}")
    L.append(f"def attribPasses : List Cat := {cats(t['attribPasses'])}")
    L.append(f"def publicListCats : List Cat := {cats(t['publicListCats'])}")
    L.append(f"def publicWord : Perm := {PERM[t['publicWord']]}")
    for k in ("srcSubroutine", "srcFunction", "srcType", "srcInterface", "srcBoundProc", "srcVariables"):
        L.append(f"def {k} : Src := {t[k]}")
    for k in ("typeChildInit", "containsReset", "submoduleInit", "moduleInit"):
        L.append(f"def {k} : Perm := {PERM[t[k]]}")
    for k in ("bareSetsChild", "bareSetsSelf", "readGeneric", "readWrapper", "readModule", "implShortTakesIface",
              "implLongTakesIface"):
        L.append(f"def {k} : Bool := {'true' if t[k] else 'false'}")
    for k in ("itemTrans", "varTrans", "sepBodyTrans", "sepIfaceTrans", "sepShortTrans"):
        L.append(f"def {k} : List (Perm × Perm × Perm) := [" + ", ".join(
            f"({PERM[c]}, {PERM[w]}, {PERM[r]})" for c, w, r in t[k]) + "]")

    L.append("def pageSrc : List (PKind × PSrc) := [" + ", ".join(f"({PKIND[k]}, {PSRC[v]})" for k, v in t["pageSrc"]) + "]")

    def ch(c):
        return "'\\''" if c == "'" else "'\\\\'" if c == "\\" else f"'{c}'"

    for k in ("declDropChars", "cutChars", "splitLevelChars"):
        L.append(f"def {k} : List Char := [" + ", ".join(ch(c) for c in t[k]) + "]")
    L.append("def splitPairs : List (Char × Char) := [" + ", ".join(f"({ch(p[0])}, {ch(p[1])})" for p in t["splitPairs"]) + "]")
    L += ["", "end Ford.Access", ""]
    return "\n".join(L)


def translate():
    from harness import common

    target = common.LEAN / "FordModel" / "Generated" / "C04.lean"
    try:
        t = extract(common.REPO)
    except Exception:
        # nothing measured: do not leave the tables of an earlier run (possibly of another working tree) behind -
        # the model is then built with the committed tables, and the failure is reported as a broken tie
        import subprocess

        rel = target.relative_to(common.LEAN.parent)
        r = subprocess.run(["git", "-C", str(common.LEAN.parent), "show", f"HEAD:{rel}"], capture_output=True, text=True)
        if r.returncode == 0 and r.stdout.strip():
            common.write_if_changed(target, r.stdout)
        raise
    common.write_if_changed(target, render(t))
    return t
