"""Translator for C08: regenerates lean/FordModel/Generated/C08.lean from the working tree.

G1  intrinsics : ford.intrinsics.INTRINSICS (imported from REPO)
G4  cascade    : the ordered (branch name, guard) list of the if/elif chain in
                 FortranContainer.__init__ (ast walk of ford/sourceform.py)

A construct that cannot be found raises (= "tie broken", never a pass).
"""
from __future__ import annotations

import ast
import importlib
import sys
from pathlib import Path

VERIF = Path(__file__).resolve().parent.parent
sys.path.insert(0, str(VERIF))
from harness import common  # noqa: E402

OUT = common.LEAN / "FordModel" / "Generated" / "C08.lean"


def lean_str(s: str) -> str:
    if not all(32 <= ord(c) < 127 for c in s):
        raise ValueError(f"non-ASCII table entry {s!r}")
    return '"' + s.replace("\\", "\\\\").replace('"', '\\"') + '"'


def get_intrinsics() -> list[str]:
    common.import_ford()
    mod = importlib.import_module("ford.intrinsics")
    mod = importlib.reload(mod)
    table = getattr(mod, "INTRINSICS")
    if not isinstance(table, (list, tuple, set, frozenset)) or len(table) < 50:
        raise ValueError("ford.intrinsics.INTRINSICS is not a sizeable collection")
    table = list(table) if isinstance(table, (list, tuple)) else sorted(table)
    if not all(isinstance(x, str) for x in table):
        raise ValueError("INTRINSICS has non-string entries")
    # what `_add_procedure_calls` really tests against
    sf = importlib.import_module("ford.sourceform")
    used = getattr(sf, "INTRINSICS")
    if list(used) != list(table) and sorted(used) != sorted(table):
        raise ValueError("ford.sourceform.INTRINSICS is not ford.intrinsics.INTRINSICS")
    return table


def _regex_calls(node: ast.AST) -> list[str]:
    """names X of every `self.X.match(...)` / `self.X.search(...)` in the expression"""
    out = []
    for n in ast.walk(node):
        if (isinstance(n, ast.Call) and isinstance(n.func, ast.Attribute)
                and n.func.attr in ("match", "search")
                and isinstance(n.func.value, ast.Attribute)
                and isinstance(n.func.value.value, ast.Name) and n.func.value.value.id == "self"):
            out.append(n.func.value.attr)
    return out


def _guard(test: ast.AST) -> str:
    if isinstance(test, ast.BoolOp) and isinstance(test.op, ast.And):
        extras = []
        for v in test.values:
            if _regex_calls(v):
                continue
            src = ast.unparse(v)
            if src == "blocklevel == 0":
                extras.append("blocklevel0")
            elif src == "incontains":
                extras.append("incontains")
            else:
                extras.append("other:" + src)
        return "&".join(extras)
    return ""


def _branch_name(test: ast.AST) -> str:
    names = _regex_calls(test)
    if names:
        # dedupe, keep order
        seen = []
        for n in names:
            if n not in seen:
                seen.append(n)
        return "|".join(seen)
    if isinstance(test, ast.Compare) and isinstance(test.left, ast.Name) and test.left.id == "line_lower":
        op = test.ops[0]
        comp = test.comparators[0]
        if isinstance(op, ast.Eq) and isinstance(comp, ast.Constant):
            return f"eq:{comp.value}"
        if isinstance(op, ast.In) and isinstance(comp, (ast.List, ast.Tuple)):
            return "in:" + ",".join(str(e.value) for e in comp.elts)
    return "expr:" + ast.unparse(test)


def get_cascade() -> list[tuple[str, str]]:
    path = common.REPO / "ford" / "sourceform.py"
    tree = ast.parse(path.read_text())
    cls = next((n for n in tree.body if isinstance(n, ast.ClassDef) and n.name == "FortranContainer"), None)
    if cls is None:
        raise ValueError("class FortranContainer not found")
    init = next((n for n in cls.body if isinstance(n, ast.FunctionDef) and n.name == "__init__"), None)
    if init is None:
        raise ValueError("FortranContainer.__init__ not found")
    loop = next((n for n in init.body if isinstance(n, ast.For)
                 and isinstance(n.target, ast.Name) and n.target.id == "line"), None)
    if loop is None:
        raise ValueError("`for line in source` loop not found")
    # the cascade is the top-level `if` of the loop whose elif chain contains CALL_RE
    casc = None
    for top in [n for n in loop.body if isinstance(n, ast.If)]:
        branches = []
        node = top
        while True:
            branches.append(node)
            if len(node.orelse) == 1 and isinstance(node.orelse[0], ast.If):
                node = node.orelse[0]
            else:
                break
        if any("CALL_RE" in _regex_calls(b.test) for b in branches):
            casc = branches
            if node.orelse:
                raise ValueError("the cascade has a final `else` branch (structure changed)")
            break
    if casc is None:
        raise ValueError("if/elif cascade with CALL_RE not found")
    out = [(_branch_name(b.test), _guard(b.test)) for b in casc]
    # what the CALL branch does must still be `_add_procedure_calls(line, associations)`
    call_branch = next(b for b in casc if "CALL_RE" in _regex_calls(b.test))
    if "_add_procedure_calls(line, associations)" not in ast.unparse(call_branch):
        raise ValueError("CALL branch no longer calls _add_procedure_calls(line, associations)")
    return out


def render(intr: list[str], casc: list[tuple[str, str]]) -> str:
    lines = ["/- GENERATED by translate/c08.py from ford/intrinsics.py and ford/sourceform.py - do not edit -/",
             "namespace Ford.Generated.C08", "",
             "/-- `ford.intrinsics.INTRINSICS` -/",
             "def intrinsics : List String := ["]
    for i in range(0, len(intr), 6):
        chunk = ", ".join(lean_str(x) for x in intr[i:i + 6])
        lines.append("  " + chunk + ("," if i + 6 < len(intr) else ""))
    lines += ["]", "",
              "/-- the `if/elif` cascade of `FortranContainer.__init__`: (branch, extra guard), in source order -/",
              "def cascade : List (String × String) := ["]
    for k, (n, g) in enumerate(casc):
        lines.append(f"  ({lean_str(n)}, {lean_str(g)})" + ("," if k + 1 < len(casc) else ""))
    lines += ["]", "", "end Ford.Generated.C08", ""]
    return "\n".join(lines)


def translate() -> dict:
    intr = get_intrinsics()
    casc = get_cascade()
    common.write_if_changed(OUT, render(intr, casc))
    return {"intrinsics": len(intr), "cascade": casc}


if __name__ == "__main__":
    info = translate()
    print(info["intrinsics"], "intrinsics;", len(info["cascade"]), "branches")
    for b in info["cascade"]:
        print("  ", b)
