"""Translator for C08: regenerates lean/FordModel/Generated/C08.lean from the working tree.

G1  intrinsics : the names `_add_procedure_calls` never records - derived by PROBING the real
                 method on a stub container with every candidate name (round 5; before: the literal
                 `ford.intrinsics.INTRINSICS`).  Candidates: every string of every sizeable string
                 collection bound in ford.intrinsics / ford.sourceform, the names of the specification
                 (lean/FordModel/Spec/CallsNames.lean) and the harness' name pools.  One-word names,
                 sorted: the spelling, order, container type and name of the table do not matter.
G4  cascade    : the ordered (branch name, guard) list of the if/elif chain in
                 FortranContainer.__init__ (ast walk of ford/sourceform.py).  Round 5: read after
                 alpha-renaming the locals by their ROLE (loop variable, its lower-cased copy, the
                 BLOCK nesting counter, the CONTAINS flag, the Associations object), with literal
                 tables resolved to the constants they are bound to, names bound once in the loop
                 body replaced by their definition, and boolean wrappers (`is not None`, `bool(..)`,
                 `:=`) removed.
G10 guards     : for the branches whose test is one boolean `self.X.match(line)` /
                 `self.X.search(line)` and which the property says must never be scanned
                 (INTERPRETED below): the method used at the call site and the parse tree of
                 the compiled pattern object (`re._parser`), as a term of `Ford.Rx.Re`
                 (lean/FordModel/CallsRegex.lean) that the model interprets

G11 scope     : what decides, for a name that ends a recorded chain of length 1, whether
                 `correlate()` removes it as "a variable" (round 4):
                 * `scopeFilter`  - which entities `FortranCodeUnit._cleanup` drops from
                   `self.variables`: the keyword and the normalisation applied to each attribute
                   before the comparison.  Round 5: derived by PROBING the real `_cleanup` on stub
                   variables (one attribute spelling each); before: ast of the comprehension;
                 * `labelOrder`   - the order in which `_find_chain_item.get_label_item` merges the
                   name tables of a scope (the later wins).  Round 5: derived by PROBING the real
                   `_find_chain_item` on stub scopes that hold the same label in two tables;
                 * `removedKinds` - the classes whose instances `correlate` removes from `calls`.
                   Round 5: derived by PROBING a real `Project` on a ten-line source that references
                   one entity of every class `_find_chain_item` can return.

A construct that cannot be found raises (= "tie broken", never a pass).
"""
from __future__ import annotations

import ast
import importlib
import re
import sys
from pathlib import Path

VERIF = Path(__file__).resolve().parent.parent
sys.path.insert(0, str(VERIF))
from harness import common  # noqa: E402

OUT = common.LEAN / "FordModel" / "Generated" / "C08.lean"


def lean_str(s: str) -> str:
    if not all(32 <= ord(c) < 127 for c in s):
        raise ValueError(f"non-ASCII table entry {s!r}")
    return '"' + s.replace("\\", "\\\\").replace('"', '\\"') + '"'


SPEC_NAMES_FILE = common.LEAN / "FordModel" / "Spec" / "CallsNames.lean"


def spec_names() -> list[str]:
    """the pinned specification `Ford.CallsSpec.neverRecorded` (hand-kept Lean list; read, never written)"""
    txt = SPEC_NAMES_FILE.read_text()
    body = txt[txt.index("def neverRecorded"):]
    body = body[body.index(":=") + 2:]
    body = body[:body.index("]") + 1]
    names = re.findall(r'chars!\s*"([^"]*)"', body)
    if len(names) < 50:
        raise ValueError("Spec/CallsNames.lean: neverRecorded could not be read")
    return names


def _string_tables(mod) -> dict[str, list[str]]:
    """every sizeable collection of strings bound at module level (the deny-list, however it is
    named, typed or copied)"""
    out = {}
    for k, v in vars(mod).items():
        if isinstance(v, (list, tuple, set, frozenset)) and len(v) >= 50 and all(isinstance(x, str) for x in v):
            out[k] = list(v)
    return out


def probe_never_recorded(candidates) -> list[str]:
    """One-word names (lower case) that the real `FortranContainer._add_procedure_calls` does not
    record - as a function reference `x = n(1)`, as `call n(1)` and as `call n` alike."""
    common.import_ford()
    sf = importlib.import_module("ford.sourceform")

    class Probe(sf.FortranContainer):          # a container with a `calls` list and nothing else
        def __init__(self):
            self.calls = []

    def recorded(stmt: str):
        pr = Probe()
        pr._add_procedure_calls(stmt)
        return pr.calls

    # the probe itself must work: an ordinary identifier is recorded, exactly once, lower-cased
    for stmt in ("x = Zq_probe(1)", "call zq_probe(1)", "call zq_probe"):
        if recorded(stmt) != [["zq_probe"]]:
            raise ValueError(f"probing _add_procedure_calls: {stmt!r} records {recorded(stmt)!r}")
    out = []
    for n in sorted({c.lower() for c in candidates if re.fullmatch(r"[A-Za-z_]\w*", c)}):
        seen = [recorded(f"x = {n}(1)") == [[n]], recorded(f"call {n}(1)") == [[n]], recorded(f"call {n}") == [[n]],
                recorded(f"x = {n.upper()} (1)") == [[n]]]
        if all(seen):
            continue
        if any(seen):
            raise ValueError(f"probing _add_procedure_calls: the name {n!r} is filtered in some statement forms only: {seen}")
        out.append(n)
    return out


def get_intrinsics(extra_candidates=()) -> tuple[list[str], dict]:
    """(names never recorded, info).  The deny-list is read off the behaviour of the real method,
    not off a table: the candidates are every string of every sizeable string collection of
    ford.intrinsics / ford.sourceform, the specified names and `extra_candidates`."""
    common.import_ford()
    tables = {}
    for modname in ("ford.intrinsics", "ford.sourceform"):
        try:
            mod = importlib.import_module(modname)
        except ImportError:
            continue
        for k, v in _string_tables(mod).items():
            tables[f"{modname}.{k}"] = v
    cands = set(spec_names()) | set(extra_candidates)
    for v in tables.values():
        cands |= set(v)
    never = probe_never_recorded(cands)
    if len(never) < 50:
        raise ValueError(f"only {len(never)} names are never recorded: the intrinsic / keyword filter of "
                         "_add_procedure_calls is gone")
    entries = {x.lower() for v in tables.values() for x in v}
    inert = sorted(x for x in entries if not re.fullmatch(r"[A-Za-z_]\w*", x))
    return never, {"tables": {k: len(v) for k, v in sorted(tables.items())}, "candidates": len(cands),
                   "inert_entries": inert}


def _regex_calls(node: ast.AST) -> list[str]:
    """names X of every `self.X.match(...)` / `self.X.search(...)` in the expression"""
    out = []
    for n in ast.walk(node):
        if (isinstance(n, ast.Call) and isinstance(n.func, ast.Attribute)
                and n.func.attr in ("match", "search")
                and isinstance(n.func.value, ast.Attribute)
                and isinstance(n.func.value.value, ast.Name) and n.func.value.value.id == "self"):
            out.append(n.func.value.attr)
    return out


# ---- reading the cascade by meaning: roles of the locals, constants, wrappers

class _Rename(ast.NodeTransformer):
    def __init__(self, mapping):
        self.mapping = mapping

    def visit_Name(self, node):
        return ast.copy_location(ast.Name(id=self.mapping.get(node.id, node.id), ctx=node.ctx), node)


def _unwrap_bool(t: ast.AST) -> ast.AST:
    """strip what does not change the truth value of a match object: `(m := X)`, `X is not None`,
    `X != None`, `bool(X)`, `not not X`"""
    while True:
        if isinstance(t, ast.NamedExpr):
            t = t.value
        elif (isinstance(t, ast.Compare) and len(t.ops) == 1 and isinstance(t.ops[0], (ast.IsNot, ast.NotEq))
              and isinstance(t.comparators[0], ast.Constant) and t.comparators[0].value is None):
            t = t.left
        elif (isinstance(t, ast.Call) and isinstance(t.func, ast.Name) and t.func.id == "bool"
              and len(t.args) == 1 and not t.keywords):
            t = t.args[0]
        elif (isinstance(t, ast.UnaryOp) and isinstance(t.op, ast.Not) and isinstance(t.operand, ast.UnaryOp)
              and isinstance(t.operand.op, ast.Not)):
            t = t.operand.operand
        else:
            return t


def _const_strings(node: ast.AST) -> list[str] | None:
    """the strings of a literal collection, or of the module / class constant a name is bound to"""
    if isinstance(node, (ast.List, ast.Tuple, ast.Set)):
        if all(isinstance(e, ast.Constant) and isinstance(e.value, str) for e in node.elts):
            return [e.value for e in node.elts]
        return None
    common.import_ford()
    sf = importlib.import_module("ford.sourceform")
    val = None
    if isinstance(node, ast.Name):
        val = getattr(sf, node.id, None)
    elif isinstance(node, ast.Attribute) and isinstance(node.value, ast.Name) and node.value.id == "self":
        val = getattr(getattr(sf, "FortranContainer"), node.attr, None)
    elif (isinstance(node, ast.Call) and isinstance(node.func, ast.Name) and node.func.id in ("frozenset", "set", "tuple", "list")
          and len(node.args) == 1 and not node.keywords):
        return _const_strings(node.args[0])
    if isinstance(val, (list, tuple, set, frozenset)) and all(isinstance(x, str) for x in val):
        return list(val)
    return None


def _conjuncts(test: ast.AST) -> list[ast.AST]:
    if isinstance(test, ast.BoolOp) and isinstance(test.op, ast.And):
        return [c for v in test.values for c in _conjuncts(v)]
    return [test]


def _is_zero_test(v: ast.AST, name: str) -> bool:
    """`name == 0`, `0 == name`, `not name` (exact equivalents for an integer)"""
    if isinstance(v, ast.UnaryOp) and isinstance(v.op, ast.Not):
        return isinstance(v.operand, ast.Name) and v.operand.id == name
    if isinstance(v, ast.Compare) and len(v.ops) == 1 and isinstance(v.ops[0], ast.Eq):
        a, b = v.left, v.comparators[0]
        for x, y in ((a, b), (b, a)):
            if isinstance(x, ast.Name) and x.id == name and isinstance(y, ast.Constant) and y.value == 0 \
                    and not isinstance(y.value, bool):
                return True
    return False


def _guard(test: ast.AST) -> str:
    """the conjuncts of a branch test that are not the regex test itself (after renaming)"""
    conj = _conjuncts(test)
    if len(conj) == 1:
        return ""
    extras = []
    for v in conj:
        if _regex_calls(v):
            continue
        v = _unwrap_bool(v)
        if _is_zero_test(v, "blocklevel"):
            extras.append("blocklevel0")
        elif isinstance(v, ast.Name) and v.id == "incontains":
            extras.append("incontains")
        else:
            extras.append("other")          # any other condition: never true inside the modelled domain
    return "&".join(extras)


def _branch_name(test: ast.AST) -> str:
    names = _regex_calls(test)
    if names:
        # dedupe, keep order
        seen = []
        for n in names:
            if n not in seen:
                seen.append(n)
        return "|".join(seen)
    t = _unwrap_bool(test)
    if isinstance(t, ast.Compare) and len(t.ops) == 1:
        op, a, b = t.ops[0], t.left, t.comparators[0]
        if isinstance(op, ast.Eq):
            for x, y in ((a, b), (b, a)):
                if isinstance(x, ast.Name) and x.id == "line_lower" and isinstance(y, ast.Constant) and isinstance(y.value, str):
                    return f"eq:{y.value}"
        if isinstance(op, ast.In) and isinstance(a, ast.Name) and a.id == "line_lower":
            vals = _const_strings(b)
            if vals is not None:
                # membership does not depend on order or container type
                return "in:" + ",".join(sorted(set(vals)))
    return "expr:" + ast.unparse(test)


def _chain(top: ast.If) -> tuple[list[ast.If], bool]:
    branches, node = [], top
    while True:
        branches.append(node)
        if len(node.orelse) == 1 and isinstance(node.orelse[0], ast.If):
            node = node.orelse[0]
        else:
            return branches, bool(node.orelse)


def _assigned_names(stmts, pred) -> list[str]:
    out = []
    for st in stmts:
        for n in ast.walk(st):
            nm = pred(n)
            if nm and nm not in out:
                out.append(nm)
    return out


def _cascade_ast() -> list[ast.If]:
    """The branches of the cascade (ast.If nodes, source order) of the statement loop of
    `FortranContainer.__init__`, with the locals renamed by role:
      line         the loop variable
      line_lower   the local bound to `<loop variable>.lower()` in the loop body
      blocklevel   the local incremented in the branch guarded by BLOCK_RE
      incontains   the local set to True in the branch taken by the statement `contains`
      associations the local bound to `Associations()` before the loop
    and names that are bound exactly once, at the top level of the loop body before the cascade,
    to an expression replaced by that expression."""
    path = common.REPO / "ford" / "sourceform.py"
    tree = ast.parse(path.read_text())
    cls = next((n for n in tree.body if isinstance(n, ast.ClassDef) and n.name == "FortranContainer"), None)
    if cls is None:
        raise ValueError("class FortranContainer not found")
    init = next((n for n in cls.body if isinstance(n, ast.FunctionDef) and n.name == "__init__"), None)
    if init is None:
        raise ValueError("FortranContainer.__init__ not found")
    found = None
    for loop in [n for n in ast.walk(init) if isinstance(n, ast.For) and isinstance(n.target, ast.Name)]:
        for top in [n for n in loop.body if isinstance(n, ast.If)]:
            branches, has_else = _chain(top)
            if any("CALL_RE" in _regex_calls(b.test) for b in branches):
                if has_else:
                    raise ValueError("the cascade has a final `else` branch (structure changed)")
                if found is not None:
                    raise ValueError("two statement loops with a CALL_RE cascade")
                found = (loop, top, branches)
    if found is None:
        raise ValueError("statement loop with an if/elif cascade containing CALL_RE not found")
    loop, top, branches = found
    mapping = {loop.target.id: "line"}
    before = loop.body[:loop.body.index(top)]
    # line_lower
    lows = _assigned_names(before, lambda n: (
        n.targets[0].id if isinstance(n, ast.Assign) and len(n.targets) == 1 and isinstance(n.targets[0], ast.Name)
        and isinstance(n.value, ast.Call) and isinstance(n.value.func, ast.Attribute) and n.value.func.attr in ("lower", "casefold")
        and isinstance(n.value.func.value, ast.Name) and n.value.func.value.id == loop.target.id and not n.value.args else None))
    if len(lows) != 1:
        raise ValueError(f"the lower-cased copy of the statement is not a single local: {lows}")
    mapping[lows[0]] = "line_lower"
    # blocklevel: incremented where BLOCK_RE alone decides
    blk = [b for b in branches if _regex_calls(b.test) == ["BLOCK_RE"]]
    if len(blk) != 1:
        raise ValueError("no single branch guarded by BLOCK_RE")
    incs = _assigned_names(blk[0].body, lambda n: (
        n.target.id if isinstance(n, ast.AugAssign) and isinstance(n.op, ast.Add) and isinstance(n.target, ast.Name) else
        n.targets[0].id if isinstance(n, ast.Assign) and len(n.targets) == 1 and isinstance(n.targets[0], ast.Name)
        and isinstance(n.value, ast.BinOp) and isinstance(n.value.op, ast.Add) else None))
    if len(incs) != 1:
        raise ValueError(f"the BLOCK branch does not increment a single nesting counter: {incs}")
    mapping[incs[0]] = "blocklevel"
    # associations: bound to Associations() before the loop
    assoc = _assigned_names(init.body, lambda n: (
        n.targets[0].id if isinstance(n, ast.Assign) and len(n.targets) == 1 and isinstance(n.targets[0], ast.Name)
        and isinstance(n.value, ast.Call) and isinstance(n.value.func, ast.Name) and n.value.func.id == "Associations" else None))
    if len(assoc) == 1:
        mapping[assoc[0]] = "associations"
    # incontains: set to True in the first branch whose test mentions neither a regex nor anything
    # but the lower-cased statement compared with "contains"
    pre = _Rename(dict(mapping))
    for b in branches:
        t = pre.visit(ast.parse(ast.unparse(b.test), mode="eval").body)
        if _branch_name(t) == "eq:contains":
            flags = _assigned_names(b.body, lambda n: (
                n.targets[0].id if isinstance(n, ast.Assign) and len(n.targets) == 1 and isinstance(n.targets[0], ast.Name)
                and isinstance(n.value, ast.Constant) and n.value.value is True else None))
            flags = [f for f in flags if f not in mapping]
            # the flag is the one that is also *read* in a guard of the cascade
            used = {n.id for bb in branches for n in ast.walk(bb.test) if isinstance(n, ast.Name)}
            flags = [f for f in flags if f in used]
            if len(flags) == 1:
                mapping[flags[0]] = "incontains"
            break
    if len(set(mapping.values())) != len(mapping):
        raise ValueError(f"roles of the locals of the statement loop are ambiguous: {mapping}")
    # definitions bound once at the top of the loop body: replaced by their value in the tests
    defs = {}
    counts = {}
    for n in ast.walk(loop):
        if isinstance(n, (ast.Assign, ast.AugAssign, ast.NamedExpr, ast.AnnAssign)):
            tg = n.targets if isinstance(n, ast.Assign) else [n.target]
            for t_ in tg:
                for nn in ast.walk(t_):
                    if isinstance(nn, ast.Name):
                        counts[nn.id] = counts.get(nn.id, 0) + 1
    for st in before:
        if isinstance(st, ast.Assign) and len(st.targets) == 1 and isinstance(st.targets[0], ast.Name):
            nm = st.targets[0].id
            if counts.get(nm) == 1 and nm not in mapping:
                defs[nm] = st.value

    class Subst(ast.NodeTransformer):
        def visit_Name(self, node):
            if isinstance(node.ctx, ast.Load) and node.id in defs:
                return self.visit(ast.parse(ast.unparse(defs[node.id]), mode="eval").body)
            return node

    out = []
    ren = _Rename(mapping)
    for b in branches:
        nb = ast.parse(ast.unparse(b)).body[0]          # a private copy
        nb.orelse = []
        nb.test = Subst().visit(nb.test)
        nb = ast.fix_missing_locations(ren.visit(nb))
        out.append(nb)
    return out


def _calls_scanner(branch: ast.If) -> bool:
    """does the branch hand the statement and the associations to `_add_procedure_calls`?"""
    for n in ast.walk(branch):
        if (isinstance(n, ast.Call) and isinstance(n.func, ast.Attribute) and n.func.attr == "_add_procedure_calls"
                and isinstance(n.func.value, ast.Name) and n.func.value.id == "self"):
            args = list(n.args)
            kws = {k.arg: k.value for k in n.keywords}
            first = args[0] if args else kws.get("line")
            second = args[1] if len(args) > 1 else kws.get("associations")
            if (isinstance(first, ast.Name) and first.id == "line"
                    and isinstance(second, ast.Name) and second.id == "associations"):
                return True
    return False


def get_cascade() -> list[tuple[str, str]]:
    casc = _cascade_ast()
    out = [(_branch_name(b.test), _guard(b.test)) for b in casc]
    # what the CALL branch does must still be `_add_procedure_calls(line, associations)`
    call_branch = next(b for b in casc if "CALL_RE" in _regex_calls(b.test))
    if not _calls_scanner(call_branch):
        raise ValueError("CALL branch no longer calls _add_procedure_calls(line, associations)")
    return out


# --------------------------------------------------------------------------
# G10: guards of the cascade that the model interprets
# --------------------------------------------------------------------------

#: branches of the cascade whose regex is generated and interpreted (boolean use only)
INTERPRETED = ("FORMAT_RE", "ARITH_GOTO_RE")


def _branch_tests() -> dict[str, ast.AST]:
    """branch name -> test expression of that branch of the cascade (locals renamed by role)"""
    out = {}
    for b in _cascade_ast():
        out.setdefault(_branch_name(b.test), b.test)
    return out


def _call_site(test: ast.AST, name: str) -> str:
    """'match' or 'search': the branch test must be `self.<name>.<method>(line)`, possibly wrapped
    in something that keeps its truth value (`is not None`, `bool(...)`, `:=`)"""
    t = _unwrap_bool(test)
    ok = (isinstance(t, ast.Call) and isinstance(t.func, ast.Attribute) and t.func.attr in ("match", "search")
          and isinstance(t.func.value, ast.Attribute) and t.func.value.attr == name
          and isinstance(t.func.value.value, ast.Name) and t.func.value.value.id == "self"
          and len(t.args) == 1 and not t.keywords and isinstance(t.args[0], ast.Name) and t.args[0].id == "line")
    if not ok:
        raise ValueError(f"the test of branch {name} is no longer `self.{name}.match/search(line)`: {ast.unparse(test)}")
    return t.func.attr


def lean_char(code: int) -> str:
    if code > 0x10FFFF:
        raise ValueError("bad code point")
    c = chr(code)
    if c == "'":
        return "'\\''"
    if c == "\\":
        return "'\\\\'"
    if 32 <= code < 127:
        return f"'{c}'"
    return f"(Char.ofNat {code})"


def _re_term(items, P) -> str:
    """a sequence of parse-tree items -> Lean term of `Ford.Rx.Re` (right-nested `seq`)"""
    terms = [_re_item(op, av, P) for op, av in items]
    terms = [t for t in terms if t is not None]
    if not terms:
        return ".eps"
    out = terms[-1]
    for t in reversed(terms[:-1]):
        out = f"(.seq {t} {out})"
    return out


def _class_items(av, P) -> tuple[bool, list[str]]:
    neg = False
    items = []
    cats = {P.CATEGORY_SPACE: ".space", P.CATEGORY_DIGIT: ".digit", P.CATEGORY_WORD: ".word",
            P.CATEGORY_NOT_SPACE: ".nspace", P.CATEGORY_NOT_DIGIT: ".ndigit", P.CATEGORY_NOT_WORD: ".nword"}
    for op, a in av:
        if op is P.NEGATE:
            neg = True
        elif op is P.LITERAL:
            items.append(f".chr {lean_char(a)}")
        elif op is P.RANGE:
            items.append(f".range {lean_char(a[0])} {lean_char(a[1])}")
        elif op is P.CATEGORY and a in cats:
            items.append(cats[a])
        else:
            raise ValueError(f"unsupported class member {op} {a}")
    return neg, items


def _re_item(op, av, P) -> str | None:
    if op is P.LITERAL:
        return f"(.set false [.chr {lean_char(av)}])"
    if op is P.NOT_LITERAL:
        return f"(.set true [.chr {lean_char(av)}])"
    if op is P.ANY:
        return "(.set false [.notnl])"
    if op is P.IN:
        neg, items = _class_items(av, P)
        return f"(.set {'true' if neg else 'false'} [{', '.join(items)}])"
    if op is P.AT:
        if av is P.AT_BEGINNING:
            return ".bol"
        if av is P.AT_END:
            return ".eol"
        raise ValueError(f"unsupported anchor {av}")
    if op in (P.MAX_REPEAT, P.MIN_REPEAT, getattr(P, "POSSESSIVE_REPEAT", None)):
        if op is getattr(P, "POSSESSIVE_REPEAT", None):
            raise ValueError("possessive repeat is not supported")
        lo, hi, sub = av
        x = _re_term(sub, P)
        if hi is P.MAXREPEAT:
            if lo > 8:
                raise ValueError("repeat count too large")
            out = f"(.star {x})"
            for _ in range(lo):
                out = f"(.seq {x} {out})"
            return out
        if hi > 8:
            raise ValueError("repeat count too large")
        out = ".eps"
        for _ in range(hi - lo):
            out = f"(.alt (.seq {x} {out}) .eps)" if out != ".eps" else f"(.alt {x} .eps)"
        for _ in range(lo):
            out = f"(.seq {x} {out})" if out != ".eps" else x
        return out
    if op is P.SUBPATTERN:
        _group, add_flags, del_flags, sub = av
        if add_flags or del_flags:
            raise ValueError("inline flags are not supported")
        return _re_term(sub, P)
    if op is P.BRANCH:
        alts = [_re_term(a, P) for a in av[1]]
        out = alts[-1]
        for a in reversed(alts[:-1]):
            out = f"(.alt {a} {out})"
        return out
    raise ValueError(f"unsupported regex construct {op}")


def get_guards() -> list[tuple[str, str, bool, str, str]]:
    """[(branch, method, ignorecase, Lean term, pattern source)] for INTERPRETED"""
    import re
    try:
        import re._parser as P
    except ImportError:  # Python < 3.11
        import sre_parse as P
    common.import_ford()
    sf = importlib.import_module("ford.sourceform")
    FC = getattr(sf, "FortranContainer")
    tests = _branch_tests()
    out = []
    for name in INTERPRETED:
        if name not in tests:
            raise ValueError(f"no branch of the cascade is guarded by {name} alone")
        method = _call_site(tests[name], name)
        rx = getattr(FC, name, None)
        if not isinstance(rx, re.Pattern) or not isinstance(rx.pattern, str):
            raise ValueError(f"FortranContainer.{name} is not a compiled str pattern")
        allowed = re.IGNORECASE | re.UNICODE | re.VERBOSE
        if rx.flags & ~allowed:
            raise ValueError(f"{name}: unsupported flags {rx.flags}")
        tree = P.parse(rx.pattern, rx.flags)
        term = _re_term(list(tree), P)
        out.append((name, method, bool(rx.flags & re.IGNORECASE), term, rx.pattern))
    return out


# --------------------------------------------------------------------------
# G11: which names are variables of a scope, and what `correlate` removes
# --------------------------------------------------------------------------

def _sf():
    common.import_ford()
    return importlib.import_module("ford.sourceform")


#: attribute keywords a declared entity may carry (the vocabulary the filter is probed with)
ATTR_VOCABULARY = ("external", "dimension(3)", "allocatable", "pointer", "target", "save", "optional", "intent(in)",
                   "parameter", "volatile", "asynchronous", "value", "contiguous", "protected", "public", "private",
                   "intrinsic", "codimension[*]", "bind(c)")
#: (keyword, normalisation) candidates, most literal first; the first that predicts every probe is taken
FILTER_CANDIDATES = ((), ("lower",), ("strip",), ("lower", "strip"))


def _apply_ops(ops, a: str) -> str:
    for o in ops:
        a = a.lower() if o == "lower" else a.upper() if o == "upper" else a.strip()
    return a


def get_scope_filter() -> tuple[str, list[str]]:
    """(keyword, normalisation ops) such that `FortranCodeUnit._cleanup` drops from `self.variables`
    exactly the entities one of whose attributes, normalised, equals the keyword - derived by
    PROBING the real `_cleanup` on a stub scope whose variables carry one attribute spelling each
    (so an inline comprehension, a helper function, `any(...)`, a loop ... read the same)."""
    sf = _sf()

    class Scope:                                   # what `_cleanup` reads besides `variables`
        def __init__(self, variables):
            self.variables = variables
            self.routines, self.interfaces, self.types = [], [], []

        def process_attribs(self):
            pass

        def __getattr__(self, name):               # anything else: an empty collection
            if name.startswith("__"):
                raise AttributeError(name)
            return []

    class Var:                                     # a declared entity: name, type, attributes
        def __init__(self, name, attribs):
            self.name, self.attribs, self.vartype, self.parent = name, attribs, "real", None

        def __getattr__(self, name):
            if name.startswith("__"):
                raise AttributeError(name)
            return None

    def kept(attr_lists) -> list[bool]:
        vs = [Var(f"v{k}", list(a)) for k, a in enumerate(attr_lists)]
        sc = Scope(list(vs))
        sf.FortranCodeUnit._cleanup(sc)
        rest = list(sc.variables)
        if [v for v in vs if any(v is r for r in rest)] != rest:
            raise ValueError("FortranCodeUnit._cleanup: the filter of self.variables reorders or invents entities")
        return [any(v is r for r in rest) for v in vs]

    plain = kept([[a] for a in ATTR_VOCABULARY] + [[]])
    if not plain[-1]:
        raise ValueError("FortranCodeUnit._cleanup drops an entity without attributes")
    dropped = [a for a, k in zip(ATTR_VOCABULARY, plain) if not k]
    upper = kept([[a.upper()] for a in ATTR_VOCABULARY])
    dropped_u = [a for a, k in zip(ATTR_VOCABULARY, upper) if not k]
    kws = sorted(set(dropped) | set(dropped_u))
    if len(kws) != 1:
        raise ValueError(f"FortranCodeUnit._cleanup: the variables filter drops the attributes {kws} (expected exactly one keyword)")
    kw = kws[0]
    mixed = "".join(c.upper() if i % 2 else c for i, c in enumerate(kw))
    spellings = [kw, kw.upper(), kw.capitalize(), mixed, " " + kw, kw + " ", " " + kw.upper() + " ", "\t" + kw,
                 kw + "x", kw[:-1], kw + "(x)", "x" + kw]
    seen = [not k for k in kept([[a] for a in spellings])]
    # an entity is dropped when ANY of its attributes is the keyword, wherever it stands
    combos = [["save", kw.upper()], [kw.capitalize(), "target"], ["save", "target"], ["dimension(3)", mixed, "save"]]
    seen_c = [not k for k in kept(combos)]
    for ops in FILTER_CANDIDATES:
        pred = [_apply_ops(ops, a) == kw for a in spellings]
        pred_c = [any(_apply_ops(ops, a) == kw for a in c) for c in combos]
        if pred == seen and pred_c == seen_c:
            return kw, list(ops)
    raise ValueError("FortranCodeUnit._cleanup: the variables filter is not `normalise(attribute) == keyword` for a known "
                     f"normalisation: dropped {[a for a, d in zip(spellings, seen) if d]!r}")


LABEL_SOURCES = ("all_procs", "boundprocs", "all_types", "extends", "all_vars", "args", "retvar", "variables")


def get_label_order() -> list[str]:
    """the order in which `_find_chain_item` merges the name tables of a scope (the later wins) -
    derived by PROBING the real method on stub scopes that know the same label in one or two tables."""
    sf = _sf()

    class Ent:
        def __init__(self, tag):
            self.name, self.tag, self.extends = "Zq", tag, None

    class Ctx:
        pass

    def winner(sources):
        ctx = Ctx()
        for src in sources:
            e = Ent(src)
            if src in ("all_procs", "all_types", "all_vars"):
                setattr(ctx, src, {"zq": e})
            elif src in ("boundprocs", "args", "variables"):
                setattr(ctx, src, [e])
            else:                                   # extends, retvar
                setattr(ctx, src, e)
        got = sf.FortranCodeUnit._find_chain_item(ctx, ["zq"])
        return getattr(got, "tag", None)

    if winner([]) is not None:
        raise ValueError("_find_chain_item finds a label in an empty scope")
    consulted = [src for src in LABEL_SOURCES if winner([src]) == src]
    for need in ("all_procs", "all_types", "all_vars", "variables"):
        if need not in consulted:
            raise ValueError(f"get_label_item: name table {need} is no longer consulted")
    wins = {src: 0 for src in consulted}
    for i, a in enumerate(consulted):
        for b in consulted[i + 1:]:
            w, w2 = winner([a, b]), winner([b, a])
            if w != w2 or w not in (a, b):
                raise ValueError(f"get_label_item: no stable precedence between {a} and {b}: {w}, {w2}")
            wins[w] += 1
    order = sorted(consulted, key=lambda src: wins[src])
    if sorted(wins.values()) != list(range(len(consulted))) or winner(consulted) != order[-1]:
        raise ValueError(f"get_label_item: the name tables are not merged in one linear order: {wins}")
    # the order must explain every triple too (a later table wins whatever stands in between)
    for i in range(len(order) - 2):
        if winner(order[i:i + 3]) != order[i + 2]:
            raise ValueError(f"get_label_item: precedence of {order[i:i + 3]} is not linear")
    return order


REMOVED_PROBE = """\
module zq_m
  implicit none
  type :: zq_t
    integer :: c
  contains
    procedure :: zq_b => zq_bimpl
  end type zq_t
  interface zq_g
    module procedure zq_f
  end interface zq_g
  real :: zq_mv(3)
contains
  function zq_f(p) result(r)
    real :: p, r
    r = p
  end function zq_f
  subroutine zq_s(p)
    real :: p
  end subroutine zq_s
  subroutine zq_bimpl(self)
    class(zq_t) :: self
  end subroutine zq_bimpl
  subroutine zq_unit(zq_d)
    real :: zq_d(3)
    real :: zq_v(3), x
    type(zq_t) :: o
    interface
      function zq_e(p) result(r)
        real :: p, r
      end function zq_e
    end interface
    x = zq_v(1) + zq_d(1) + zq_mv(1) + zq_f(1.0) + zq_g(1.0) + zq_e(1.0) + zq_u(1.0)
    o = zq_t(1)
    call zq_s(x)
    call o%zq_b()
  end subroutine zq_unit
end module zq_m
"""
#: what each name of the probe source IS, by the declaration written above (not by the parser's view),
#: as the class FORD represents such an entity with
PROBE_ENTITIES = {"zq_v": "FortranVariable", "zq_d": "FortranVariable", "zq_mv": "FortranVariable", "zq_t": "FortranType",
                  "zq_f": "FortranFunction", "zq_s": "FortranSubroutine", "zq_g": "FortranInterface",
                  "zq_e": "FortranInterface", "zq_b": "FortranBoundProcedure", "zq_u": None}
#: canonical order of the classes in the generated list
KIND_ORDER = ("FortranVariable", "FortranType")


def get_removed_kinds() -> list[str]:
    """the classes whose instances `correlate` removes from `unit.calls` - derived by PROBING a real
    `Project` on a small source whose unit references one entity of every kind a recorded name can
    resolve to (local / dummy / module variable, derived type, function, subroutine, generic and
    specific interface, type-bound procedure, unknown name): the kinds whose references are gone
    after `correlate()`."""
    import tempfile
    sf = _sf()
    fp = importlib.import_module("ford.fortran_project")
    st = importlib.import_module("ford.settings")
    with tempfile.TemporaryDirectory(prefix="c08probe") as d:
        (Path(d) / "zq.f90").write_text(REMOVED_PROBE)
        sf.namelist = sf.NameSelector()
        try:
            with common.quiet():
                proj = fp.Project(st.ProjectSettings(src_dir=[Path(d)], preprocess=False, dbg=False))
                unit = next((q for m in proj.modules for q in m.subroutines if q.name.lower() == "zq_unit"), None)
                if unit is None:
                    raise ValueError("removed-kinds probe: the probe unit was not parsed")
                before = [str(c[-1]).lower() for c in unit.calls]
                proj.correlate()
                after = [(c if isinstance(c, str) else str(getattr(c, "name", "?"))).lower() for c in unit.calls]
        finally:
            sf.namelist = sf.NameSelector()
    if sorted(before) != sorted(PROBE_ENTITIES):
        raise ValueError(f"removed-kinds probe: the probe references were recorded as {before}")
    verdict = {}
    for n, kind in PROBE_ENTITIES.items():
        verdict.setdefault(kind, set()).add(n in after)
    mixed = [k for k, v in verdict.items() if len(v) != 1]
    if mixed:
        raise ValueError(f"removed-kinds probe: references to entities of kind {mixed} are partly kept, partly removed: {after}")
    if verdict[None] != {True}:
        raise ValueError("removed-kinds probe: a reference to an unknown name is not kept")
    removed = [k for k, v in verdict.items() if k and v == {False}]
    return [k for k in KIND_ORDER if k in removed] + sorted(k for k in removed if k not in KIND_ORDER)


def lean_chars(s: str) -> str:
    if not s or not all(32 <= ord(c) < 127 for c in s):
        raise ValueError(f"bad keyword {s!r}")
    return "[" + ", ".join(lean_char(ord(c)) for c in s) + "]"


def render(intr: list[str], casc: list[tuple[str, str]], guards, scope=None) -> str:
    lines = ["/- GENERATED by translate/c08.py from ford/intrinsics.py and ford/sourceform.py - do not edit -/",
             "import FordModel.CallsRegex",
             "namespace Ford.Generated.C08", "",
             "/-- the names `_add_procedure_calls` never records (probed on the real method; one-word names, sorted;",
             "    character lists: string literals are byte arrays and slow to compare in the kernel) -/",
             "def intrinsics : List (List Char) := ["]
    for i, x in enumerate(intr):
        lines.append("  " + lean_chars(x) + ("," if i + 1 < len(intr) else ""))
    lines += ["]", "",
              "/-- the `if/elif` cascade of `FortranContainer.__init__`: (branch, extra guard), in source order -/",
              "def cascade : List (String × String) := ["]
    for k, (n, g) in enumerate(casc):
        lines.append(f"  ({lean_str(n)}, {lean_str(g)})" + ("," if k + 1 < len(casc) else ""))
    lines += ["]", ""]
    for name, method, ci, term, src in guards:
        # (the pattern source is not quoted: a re-layout of the same regex must not change this file)
        lines += [f"/-- parse tree (`re._parser`) of the compiled `FortranContainer.{name}`" + (" (IGNORECASE)" if ci else "") + " -/",
                  f"def rx{name} : Ford.Rx.Pattern := {{ ci := {'true' if ci else 'false'}, body :=",
                  f"  {term} }}", ""]
    lines += ["/-- the interpreted guards: (branch, used with `.search` (else `.match`), pattern) -/",
              "def guards : Ford.Rx.Guards := ["]
    for k, (name, method, ci, term, src) in enumerate(guards):
        lines.append(f"  ({lean_str(name)}, {'true' if method == 'search' else 'false'}, rx{name})" + ("," if k + 1 < len(guards) else ""))
    lines += ["]", ""]
    if scope is not None:
        (kw, ops), order, removed = scope
        lines += ["/-- the EXTERNAL filter of `FortranCodeUnit._cleanup`: (keyword, normalisation applied to each",
                  "    attribute before it is compared with the keyword, in application order) -/",
                  f"def scopeFilter : List Char × List String := ({lean_chars(kw)}, [{', '.join(lean_str(o) for o in ops)}])", "",
                  "/-- the order in which `get_label_item` merges the name tables of a scope (the later wins) -/",
                  f"def labelOrder : List String := [{', '.join(lean_str(o) for o in order)}]", "",
                  "/-- classes whose instances `correlate` removes from `calls` -/",
                  f"def removedKinds : List String := [{', '.join(lean_str(o) for o in removed)}]", ""]
    lines += ["end Ford.Generated.C08", ""]
    return "\n".join(lines)


def translate(extra_candidates=()) -> dict:
    intr, intr_info = get_intrinsics(extra_candidates)
    casc = get_cascade()
    guards = get_guards()
    scope = (get_scope_filter(), get_label_order(), get_removed_kinds())
    common.write_if_changed(OUT, render(intr, casc, guards, scope))
    return {"intrinsics": len(intr), "never_recorded": intr, "intrinsics_probe": intr_info, "cascade": casc,
            "guards": [{"branch": g[0], "method": g[1], "ignorecase": g[2], "pattern": g[4]} for g in guards],
            "scope": {"filter": {"keyword": scope[0][0], "normalisation": scope[0][1]},
                      "label_order": scope[1], "removed_kinds": scope[2]}}


if __name__ == "__main__":
    info = translate()
    print(info["intrinsics"], "intrinsics;", len(info["cascade"]), "branches")
    for b in info["cascade"]:
        print("  ", b)
    for g in info["guards"]:
        print("  ", g)
    print("  ", info["scope"])
