"""Translator for C08: regenerates lean/FordModel/Generated/C08.lean from the working tree.

G1  intrinsics : ford.intrinsics.INTRINSICS (imported from REPO)
G4  cascade    : the ordered (branch name, guard) list of the if/elif chain in
                 FortranContainer.__init__ (ast walk of ford/sourceform.py)
G10 guards     : for the branches whose test is one boolean `self.X.match(line)` /
                 `self.X.search(line)` and which the property says must never be scanned
                 (INTERPRETED below): the method used at the call site and the parse tree of
                 the compiled pattern object (`re._parser`), as a term of `Ford.Rx.Re`
                 (lean/FordModel/CallsRegex.lean) that the model interprets

G11 scope     : what decides, for a name that ends a recorded chain of length 1, whether
                 `correlate()` removes it as "a variable" (round 4):
                 * `scopeFilter`  - the comprehension in `FortranCodeUnit._cleanup` that drops the
                   entities with the EXTERNAL attribute from `self.variables`: the keyword and the
                   normalisation applied to each attribute before the comparison (ast);
                 * `labelOrder`   - the order in which `_find_chain_item.get_label_item` merges the
                   name tables of a scope (`labels.update(...)`; the later wins);
                 * `removedKinds` - the classes in the `isinstance(item, (...))` test of the loop
                   "Match up called procedures" in `FortranCodeUnit.correlate`.

A construct that cannot be found raises (= "tie broken", never a pass).
"""
from __future__ import annotations

import ast
import importlib
import re
import sys
from pathlib import Path

VERIF = Path(__file__).resolve().parent.parent
sys.path.insert(0, str(VERIF))
from harness import common  # noqa: E402

OUT = common.LEAN / "FordModel" / "Generated" / "C08.lean"


def lean_str(s: str) -> str:
    if not all(32 <= ord(c) < 127 for c in s):
        raise ValueError(f"non-ASCII table entry {s!r}")
    return '"' + s.replace("\\", "\\\\").replace('"', '\\"') + '"'


def get_intrinsics() -> list[str]:
    common.import_ford()
    mod = importlib.import_module("ford.intrinsics")
    mod = importlib.reload(mod)
    table = getattr(mod, "INTRINSICS")
    if not isinstance(table, (list, tuple, set, frozenset)) or len(table) < 50:
        raise ValueError("ford.intrinsics.INTRINSICS is not a sizeable collection")
    table = list(table) if isinstance(table, (list, tuple)) else sorted(table)
    if not all(isinstance(x, str) for x in table):
        raise ValueError("INTRINSICS has non-string entries")
    # what `_add_procedure_calls` really tests against
    sf = importlib.import_module("ford.sourceform")
    used = getattr(sf, "INTRINSICS")
    if list(used) != list(table) and sorted(used) != sorted(table):
        raise ValueError("ford.sourceform.INTRINSICS is not ford.intrinsics.INTRINSICS")
    return table


def _regex_calls(node: ast.AST) -> list[str]:
    """names X of every `self.X.match(...)` / `self.X.search(...)` in the expression"""
    out = []
    for n in ast.walk(node):
        if (isinstance(n, ast.Call) and isinstance(n.func, ast.Attribute)
                and n.func.attr in ("match", "search")
                and isinstance(n.func.value, ast.Attribute)
                and isinstance(n.func.value.value, ast.Name) and n.func.value.value.id == "self"):
            out.append(n.func.value.attr)
    return out


def _guard(test: ast.AST) -> str:
    if isinstance(test, ast.BoolOp) and isinstance(test.op, ast.And):
        extras = []
        for v in test.values:
            if _regex_calls(v):
                continue
            src = ast.unparse(v)
            if src == "blocklevel == 0":
                extras.append("blocklevel0")
            elif src == "incontains":
                extras.append("incontains")
            else:
                extras.append("other:" + src)
        return "&".join(extras)
    return ""


def _branch_name(test: ast.AST) -> str:
    names = _regex_calls(test)
    if names:
        # dedupe, keep order
        seen = []
        for n in names:
            if n not in seen:
                seen.append(n)
        return "|".join(seen)
    if isinstance(test, ast.Compare) and isinstance(test.left, ast.Name) and test.left.id == "line_lower":
        op = test.ops[0]
        comp = test.comparators[0]
        if isinstance(op, ast.Eq) and isinstance(comp, ast.Constant):
            return f"eq:{comp.value}"
        if isinstance(op, ast.In) and isinstance(comp, (ast.List, ast.Tuple)):
            return "in:" + ",".join(str(e.value) for e in comp.elts)
    return "expr:" + ast.unparse(test)


def get_cascade() -> list[tuple[str, str]]:
    path = common.REPO / "ford" / "sourceform.py"
    tree = ast.parse(path.read_text())
    cls = next((n for n in tree.body if isinstance(n, ast.ClassDef) and n.name == "FortranContainer"), None)
    if cls is None:
        raise ValueError("class FortranContainer not found")
    init = next((n for n in cls.body if isinstance(n, ast.FunctionDef) and n.name == "__init__"), None)
    if init is None:
        raise ValueError("FortranContainer.__init__ not found")
    loop = next((n for n in init.body if isinstance(n, ast.For)
                 and isinstance(n.target, ast.Name) and n.target.id == "line"), None)
    if loop is None:
        raise ValueError("`for line in source` loop not found")
    # the cascade is the top-level `if` of the loop whose elif chain contains CALL_RE
    casc = None
    for top in [n for n in loop.body if isinstance(n, ast.If)]:
        branches = []
        node = top
        while True:
            branches.append(node)
            if len(node.orelse) == 1 and isinstance(node.orelse[0], ast.If):
                node = node.orelse[0]
            else:
                break
        if any("CALL_RE" in _regex_calls(b.test) for b in branches):
            casc = branches
            if node.orelse:
                raise ValueError("the cascade has a final `else` branch (structure changed)")
            break
    if casc is None:
        raise ValueError("if/elif cascade with CALL_RE not found")
    out = [(_branch_name(b.test), _guard(b.test)) for b in casc]
    # what the CALL branch does must still be `_add_procedure_calls(line, associations)`
    call_branch = next(b for b in casc if "CALL_RE" in _regex_calls(b.test))
    if "_add_procedure_calls(line, associations)" not in ast.unparse(call_branch):
        raise ValueError("CALL branch no longer calls _add_procedure_calls(line, associations)")
    return out


# --------------------------------------------------------------------------
# G10: guards of the cascade that the model interprets
# --------------------------------------------------------------------------

#: branches of the cascade whose regex is generated and interpreted (boolean use only)
INTERPRETED = ("FORMAT_RE", "ARITH_GOTO_RE")


def _branch_tests() -> dict[str, ast.AST]:
    """branch name -> test expression of that branch of the cascade"""
    path = common.REPO / "ford" / "sourceform.py"
    tree = ast.parse(path.read_text())
    cls = next(n for n in tree.body if isinstance(n, ast.ClassDef) and n.name == "FortranContainer")
    init = next(n for n in cls.body if isinstance(n, ast.FunctionDef) and n.name == "__init__")
    out = {}
    for n in ast.walk(init):
        if isinstance(n, ast.If):
            nm = _branch_name(n.test)
            out.setdefault(nm, n.test)
    return out


def _call_site(test: ast.AST, name: str) -> str:
    """'match' or 'search': the branch test must be exactly `self.<name>.<method>(line)`"""
    t = test
    if isinstance(t, ast.NamedExpr):
        t = t.value
    ok = (isinstance(t, ast.Call) and isinstance(t.func, ast.Attribute) and t.func.attr in ("match", "search")
          and isinstance(t.func.value, ast.Attribute) and t.func.value.attr == name
          and isinstance(t.func.value.value, ast.Name) and t.func.value.value.id == "self"
          and len(t.args) == 1 and not t.keywords and isinstance(t.args[0], ast.Name) and t.args[0].id == "line")
    if not ok:
        raise ValueError(f"the test of branch {name} is no longer `self.{name}.match/search(line)`: {ast.unparse(test)}")
    return t.func.attr


def lean_char(code: int) -> str:
    if code > 0x10FFFF:
        raise ValueError("bad code point")
    c = chr(code)
    if c == "'":
        return "'\\''"
    if c == "\\":
        return "'\\\\'"
    if 32 <= code < 127:
        return f"'{c}'"
    return f"(Char.ofNat {code})"


def _re_term(items, P) -> str:
    """a sequence of parse-tree items -> Lean term of `Ford.Rx.Re` (right-nested `seq`)"""
    terms = [_re_item(op, av, P) for op, av in items]
    terms = [t for t in terms if t is not None]
    if not terms:
        return ".eps"
    out = terms[-1]
    for t in reversed(terms[:-1]):
        out = f"(.seq {t} {out})"
    return out


def _class_items(av, P) -> tuple[bool, list[str]]:
    neg = False
    items = []
    cats = {P.CATEGORY_SPACE: ".space", P.CATEGORY_DIGIT: ".digit", P.CATEGORY_WORD: ".word",
            P.CATEGORY_NOT_SPACE: ".nspace", P.CATEGORY_NOT_DIGIT: ".ndigit", P.CATEGORY_NOT_WORD: ".nword"}
    for op, a in av:
        if op is P.NEGATE:
            neg = True
        elif op is P.LITERAL:
            items.append(f".chr {lean_char(a)}")
        elif op is P.RANGE:
            items.append(f".range {lean_char(a[0])} {lean_char(a[1])}")
        elif op is P.CATEGORY and a in cats:
            items.append(cats[a])
        else:
            raise ValueError(f"unsupported class member {op} {a}")
    return neg, items


def _re_item(op, av, P) -> str | None:
    if op is P.LITERAL:
        return f"(.set false [.chr {lean_char(av)}])"
    if op is P.NOT_LITERAL:
        return f"(.set true [.chr {lean_char(av)}])"
    if op is P.ANY:
        return "(.set false [.notnl])"
    if op is P.IN:
        neg, items = _class_items(av, P)
        return f"(.set {'true' if neg else 'false'} [{', '.join(items)}])"
    if op is P.AT:
        if av is P.AT_BEGINNING:
            return ".bol"
        if av is P.AT_END:
            return ".eol"
        raise ValueError(f"unsupported anchor {av}")
    if op in (P.MAX_REPEAT, P.MIN_REPEAT, getattr(P, "POSSESSIVE_REPEAT", None)):
        if op is getattr(P, "POSSESSIVE_REPEAT", None):
            raise ValueError("possessive repeat is not supported")
        lo, hi, sub = av
        x = _re_term(sub, P)
        if hi is P.MAXREPEAT:
            if lo > 8:
                raise ValueError("repeat count too large")
            out = f"(.star {x})"
            for _ in range(lo):
                out = f"(.seq {x} {out})"
            return out
        if hi > 8:
            raise ValueError("repeat count too large")
        out = ".eps"
        for _ in range(hi - lo):
            out = f"(.alt (.seq {x} {out}) .eps)" if out != ".eps" else f"(.alt {x} .eps)"
        for _ in range(lo):
            out = f"(.seq {x} {out})" if out != ".eps" else x
        return out
    if op is P.SUBPATTERN:
        _group, add_flags, del_flags, sub = av
        if add_flags or del_flags:
            raise ValueError("inline flags are not supported")
        return _re_term(sub, P)
    if op is P.BRANCH:
        alts = [_re_term(a, P) for a in av[1]]
        out = alts[-1]
        for a in reversed(alts[:-1]):
            out = f"(.alt {a} {out})"
        return out
    raise ValueError(f"unsupported regex construct {op}")


def get_guards() -> list[tuple[str, str, bool, str, str]]:
    """[(branch, method, ignorecase, Lean term, pattern source)] for INTERPRETED"""
    import re
    try:
        import re._parser as P
    except ImportError:  # Python < 3.11
        import sre_parse as P
    common.import_ford()
    sf = importlib.import_module("ford.sourceform")
    FC = getattr(sf, "FortranContainer")
    tests = _branch_tests()
    out = []
    for name in INTERPRETED:
        if name not in tests:
            raise ValueError(f"no branch of the cascade is guarded by {name} alone")
        method = _call_site(tests[name], name)
        rx = getattr(FC, name, None)
        if not isinstance(rx, re.Pattern) or not isinstance(rx.pattern, str):
            raise ValueError(f"FortranContainer.{name} is not a compiled str pattern")
        allowed = re.IGNORECASE | re.UNICODE | re.VERBOSE
        if rx.flags & ~allowed:
            raise ValueError(f"{name}: unsupported flags {rx.flags}")
        tree = P.parse(rx.pattern, rx.flags)
        term = _re_term(list(tree), P)
        out.append((name, method, bool(rx.flags & re.IGNORECASE), term, rx.pattern))
    return out


# --------------------------------------------------------------------------
# G11: which names are variables of a scope, and what `correlate` removes
# --------------------------------------------------------------------------

NORM_OPS = ("lower", "upper", "strip", "casefold")


def _sourceform_class(name: str) -> ast.ClassDef:
    path = common.REPO / "ford" / "sourceform.py"
    tree = ast.parse(path.read_text())
    cls = next((n for n in tree.body if isinstance(n, ast.ClassDef) and n.name == name), None)
    if cls is None:
        raise ValueError(f"class {name} not found")
    return cls


def _method(cls: ast.ClassDef, name: str) -> ast.FunctionDef:
    fn = next((n for n in cls.body if isinstance(n, ast.FunctionDef) and n.name == name), None)
    if fn is None:
        raise ValueError(f"{cls.name}.{name} not found")
    return fn


def _norm_ops(expr: ast.AST, var: str) -> list[str]:
    """`var.lower().strip()` -> ['lower', 'strip'] (application order); `var` -> []"""
    ops = []
    e = expr
    while True:
        if isinstance(e, ast.Name) and e.id == var:
            return list(reversed(ops))
        if (isinstance(e, ast.Call) and isinstance(e.func, ast.Attribute) and not e.args and not e.keywords
                and e.func.attr in NORM_OPS):
            ops.append("lower" if e.func.attr == "casefold" else e.func.attr)
            e = e.func.value
            continue
        raise ValueError(f"unsupported attribute normalisation {ast.unparse(expr)}")


def _is_attr(node: ast.AST, obj: str, attr: str) -> bool:
    return (isinstance(node, ast.Attribute) and node.attr == attr
            and isinstance(node.value, ast.Name) and node.value.id == obj)


def get_scope_filter() -> tuple[str, list[str]]:
    """(keyword, normalisation ops) of `self.variables = [v for v in self.variables if <kw> not in
    [<norm>(attr) for attr in v.attribs]]` in FortranCodeUnit._cleanup.  Accepted spellings of the
    condition: `K not in [f(a) for a in v.attribs]`, `K not in v.attribs`,
    `not any(f(a) == K for a in v.attribs)`, `all(f(a) != K for a in v.attribs)`."""
    fn = _method(_sourceform_class("FortranCodeUnit"), "_cleanup")
    found = []
    for n in ast.walk(fn):
        if not (isinstance(n, ast.Assign) and len(n.targets) == 1 and _is_attr(n.targets[0], "self", "variables")):
            continue
        val = n.value
        if isinstance(val, ast.Call) and isinstance(val.func, ast.Name) and val.func.id == "list" and len(val.args) == 1:
            val = val.args[0]
        if not isinstance(val, (ast.ListComp, ast.GeneratorExp)) or len(val.generators) != 1:
            raise ValueError("FortranCodeUnit._cleanup: `self.variables = ...` is not a single comprehension")
        g = val.generators[0]
        if not (isinstance(g.target, ast.Name) and _is_attr(g.iter, "self", "variables") and len(g.ifs) == 1
                and isinstance(val.elt, ast.Name) and val.elt.id == g.target.id):
            raise ValueError("FortranCodeUnit._cleanup: unexpected shape of the variables filter")
        found.append((g.target.id, g.ifs[0]))
    if len(found) != 1:
        raise ValueError(f"FortranCodeUnit._cleanup: {len(found)} filters of self.variables (expected 1)")
    v, cond = found[0]

    def comp_over_attribs(c):
        """(element expression, loop variable) of a comprehension over `v.attribs`"""
        if (isinstance(c, (ast.ListComp, ast.GeneratorExp, ast.SetComp)) and len(c.generators) == 1
                and not c.generators[0].ifs and isinstance(c.generators[0].target, ast.Name)
                and _is_attr(c.generators[0].iter, v, "attribs")):
            return c.elt, c.generators[0].target.id
        return None

    # K not in X
    if (isinstance(cond, ast.Compare) and len(cond.ops) == 1 and isinstance(cond.ops[0], ast.NotIn)
            and isinstance(cond.left, ast.Constant) and isinstance(cond.left.value, str)):
        kw, x = cond.left.value, cond.comparators[0]
        if _is_attr(x, v, "attribs"):
            return kw, []
        co = comp_over_attribs(x)
        if co:
            return kw, _norm_ops(co[0], co[1])
    # not any(f(a) == K for a in v.attribs)  /  all(f(a) != K for a in v.attribs)
    inner, want = None, None
    if (isinstance(cond, ast.UnaryOp) and isinstance(cond.op, ast.Not) and isinstance(cond.operand, ast.Call)
            and isinstance(cond.operand.func, ast.Name) and cond.operand.func.id == "any" and len(cond.operand.args) == 1):
        inner, want = cond.operand.args[0], ast.Eq
    elif (isinstance(cond, ast.Call) and isinstance(cond.func, ast.Name) and cond.func.id == "all" and len(cond.args) == 1):
        inner, want = cond.args[0], ast.NotEq
    if inner is not None:
        co = comp_over_attribs(inner)
        if co and isinstance(co[0], ast.Compare) and len(co[0].ops) == 1 and isinstance(co[0].ops[0], want):
            a, b = co[0].left, co[0].comparators[0]
            if isinstance(a, ast.Constant):
                a, b = b, a
            if isinstance(b, ast.Constant) and isinstance(b.value, str):
                return b.value, _norm_ops(a, co[1])
    raise ValueError(f"FortranCodeUnit._cleanup: unsupported condition of the variables filter: {ast.unparse(cond)}")


LABEL_SOURCES = ("all_procs", "boundprocs", "all_types", "extends", "all_vars", "args", "retvar", "variables")


def get_label_order() -> list[str]:
    """the order in which `get_label_item` (inside `_find_chain_item`) merges the tables of a
    context into `labels`; every top-level statement between `labels = {}` and the `return`
    must mention exactly one known source"""
    fn = _method(_sourceform_class("FortranCodeUnit"), "_find_chain_item")
    gli = next((n for n in fn.body if isinstance(n, ast.FunctionDef) and n.name == "get_label_item"), None)
    if gli is None:
        raise ValueError("_find_chain_item.get_label_item not found")
    order = []
    started = False
    for st in gli.body:
        src = ast.unparse(st)
        if isinstance(st, ast.Expr) and isinstance(st.value, ast.Constant):
            continue  # docstring
        if not started:
            if src.replace(" ", "") == "labels={}":
                started = True
                continue
            raise ValueError(f"get_label_item: unexpected statement before `labels = {{}}`: {src}")
        if isinstance(st, ast.Return):
            if src.replace(" ", "") not in ("returnlabels.get(label,None)", "returnlabels.get(label)"):
                raise ValueError(f"get_label_item: unexpected return {src}")
            break
        if "labels" not in src:
            if isinstance(st, ast.Assign) and src.startswith("extend_type"):
                continue
            raise ValueError(f"get_label_item: statement does not touch `labels`: {src}")
        hits = [k for k in LABEL_SOURCES
                if re.search(r"['\"]%s['\"]|\b%s\b" % (k, k), src) and (k != "extends" or "extend" in src)]
        if len(hits) != 1:
            raise ValueError(f"get_label_item: cannot attribute statement to one name table: {src} -> {hits}")
        order.append(hits[0])
    else:
        raise ValueError("get_label_item: no return statement")
    if sorted(order) != sorted(set(order)):
        raise ValueError(f"get_label_item: a name table is merged twice: {order}")
    for need in ("all_procs", "all_types", "all_vars", "variables"):
        if need not in order:
            raise ValueError(f"get_label_item: name table {need} is no longer consulted")
    return order


def get_removed_kinds() -> list[str]:
    """class names in `if not isinstance(item, (...))` of the `for call in self.calls` loop of
    FortranCodeUnit.correlate"""
    fn = _method(_sourceform_class("FortranCodeUnit"), "correlate")
    loops = [n for n in ast.walk(fn) if isinstance(n, ast.For) and _is_attr(n.iter, "self", "calls")]
    if len(loops) != 1:
        raise ValueError(f"correlate: {len(loops)} loops over self.calls (expected 1)")
    tests = [n for n in ast.walk(loops[0]) if isinstance(n, ast.If)]
    out = None
    for t in tests:
        c = t.test
        if (isinstance(c, ast.UnaryOp) and isinstance(c.op, ast.Not) and isinstance(c.operand, ast.Call)
                and isinstance(c.operand.func, ast.Name) and c.operand.func.id == "isinstance"
                and len(c.operand.args) == 2 and isinstance(c.operand.args[0], ast.Name)):
            k = c.operand.args[1]
            elts = k.elts if isinstance(k, ast.Tuple) else [k]
            if not all(isinstance(e, ast.Name) for e in elts):
                raise ValueError("correlate: isinstance test with non-name classes")
            if out is not None:
                raise ValueError("correlate: more than one isinstance filter in the calls loop")
            out = [e.id for e in elts]
            if "tmplst.append" not in ast.unparse(t.body[0]) or t.orelse:
                raise ValueError("correlate: the isinstance filter no longer guards `tmplst.append(item)`")
    if out is None:
        raise ValueError("correlate: `if not isinstance(item, (...))` filter of the calls loop not found")
    return out


def lean_chars(s: str) -> str:
    if not s or not all(32 <= ord(c) < 127 for c in s):
        raise ValueError(f"bad keyword {s!r}")
    return "[" + ", ".join(lean_char(ord(c)) for c in s) + "]"


def render(intr: list[str], casc: list[tuple[str, str]], guards, scope=None) -> str:
    lines = ["/- GENERATED by translate/c08.py from ford/intrinsics.py and ford/sourceform.py - do not edit -/",
             "import FordModel.CallsRegex",
             "namespace Ford.Generated.C08", "",
             "/-- `ford.intrinsics.INTRINSICS` -/",
             "def intrinsics : List String := ["]
    for i in range(0, len(intr), 6):
        chunk = ", ".join(lean_str(x) for x in intr[i:i + 6])
        lines.append("  " + chunk + ("," if i + 6 < len(intr) else ""))
    lines += ["]", "",
              "/-- the `if/elif` cascade of `FortranContainer.__init__`: (branch, extra guard), in source order -/",
              "def cascade : List (String × String) := ["]
    for k, (n, g) in enumerate(casc):
        lines.append(f"  ({lean_str(n)}, {lean_str(g)})" + ("," if k + 1 < len(casc) else ""))
    lines += ["]", ""]
    for name, method, ci, term, src in guards:
        if "-/" in src:
            raise ValueError("pattern source cannot be quoted in a Lean comment")
        lines += [f"/-- parse tree of `FortranContainer.{name}` = `{src.strip()}`" + (" (IGNORECASE)" if ci else "") + " -/",
                  f"def rx{name} : Ford.Rx.Pattern := {{ ci := {'true' if ci else 'false'}, body :=",
                  f"  {term} }}", ""]
    lines += ["/-- the interpreted guards: (branch, used with `.search` (else `.match`), pattern) -/",
              "def guards : Ford.Rx.Guards := ["]
    for k, (name, method, ci, term, src) in enumerate(guards):
        lines.append(f"  ({lean_str(name)}, {'true' if method == 'search' else 'false'}, rx{name})" + ("," if k + 1 < len(guards) else ""))
    lines += ["]", ""]
    if scope is not None:
        (kw, ops), order, removed = scope
        lines += ["/-- the EXTERNAL filter of `FortranCodeUnit._cleanup`: (keyword, normalisation applied to each",
                  "    attribute before it is compared with the keyword, in application order) -/",
                  f"def scopeFilter : List Char × List String := ({lean_chars(kw)}, [{', '.join(lean_str(o) for o in ops)}])", "",
                  "/-- the order in which `get_label_item` merges the name tables of a scope (the later wins) -/",
                  f"def labelOrder : List String := [{', '.join(lean_str(o) for o in order)}]", "",
                  "/-- classes whose instances `correlate` removes from `calls` -/",
                  f"def removedKinds : List String := [{', '.join(lean_str(o) for o in removed)}]", ""]
    lines += ["end Ford.Generated.C08", ""]
    return "\n".join(lines)


def translate() -> dict:
    intr = get_intrinsics()
    casc = get_cascade()
    guards = get_guards()
    scope = (get_scope_filter(), get_label_order(), get_removed_kinds())
    common.write_if_changed(OUT, render(intr, casc, guards, scope))
    return {"intrinsics": len(intr), "cascade": casc,
            "guards": [{"branch": g[0], "method": g[1], "ignorecase": g[2], "pattern": g[4]} for g in guards],
            "scope": {"filter": {"keyword": scope[0][0], "normalisation": scope[0][1]},
                      "label_order": scope[1], "removed_kinds": scope[2]}}


if __name__ == "__main__":
    info = translate()
    print(info["intrinsics"], "intrinsics;", len(info["cascade"]), "branches")
    for b in info["cascade"]:
        print("  ", b)
    for g in info["guards"]:
        print("  ", g)
    print("  ", info["scope"])
