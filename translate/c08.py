"""Translator for C08: regenerates lean/FordModel/Generated/C08.lean from the working tree.

G1  intrinsics : ford.intrinsics.INTRINSICS (imported from REPO)
G4  cascade    : the ordered (branch name, guard) list of the if/elif chain in
                 FortranContainer.__init__ (ast walk of ford/sourceform.py)
G10 guards     : for the branches whose test is one boolean `self.X.match(line)` /
                 `self.X.search(line)` and which the property says must never be scanned
                 (INTERPRETED below): the method used at the call site and the parse tree of
                 the compiled pattern object (`re._parser`), as a term of `Ford.Rx.Re`
                 (lean/FordModel/CallsRegex.lean) that the model interprets

A construct that cannot be found raises (= "tie broken", never a pass).
"""
from __future__ import annotations

import ast
import importlib
import sys
from pathlib import Path

VERIF = Path(__file__).resolve().parent.parent
sys.path.insert(0, str(VERIF))
from harness import common  # noqa: E402

OUT = common.LEAN / "FordModel" / "Generated" / "C08.lean"


def lean_str(s: str) -> str:
    if not all(32 <= ord(c) < 127 for c in s):
        raise ValueError(f"non-ASCII table entry {s!r}")
    return '"' + s.replace("\\", "\\\\").replace('"', '\\"') + '"'


def get_intrinsics() -> list[str]:
    common.import_ford()
    mod = importlib.import_module("ford.intrinsics")
    mod = importlib.reload(mod)
    table = getattr(mod, "INTRINSICS")
    if not isinstance(table, (list, tuple, set, frozenset)) or len(table) < 50:
        raise ValueError("ford.intrinsics.INTRINSICS is not a sizeable collection")
    table = list(table) if isinstance(table, (list, tuple)) else sorted(table)
    if not all(isinstance(x, str) for x in table):
        raise ValueError("INTRINSICS has non-string entries")
    # what `_add_procedure_calls` really tests against
    sf = importlib.import_module("ford.sourceform")
    used = getattr(sf, "INTRINSICS")
    if list(used) != list(table) and sorted(used) != sorted(table):
        raise ValueError("ford.sourceform.INTRINSICS is not ford.intrinsics.INTRINSICS")
    return table


def _regex_calls(node: ast.AST) -> list[str]:
    """names X of every `self.X.match(...)` / `self.X.search(...)` in the expression"""
    out = []
    for n in ast.walk(node):
        if (isinstance(n, ast.Call) and isinstance(n.func, ast.Attribute)
                and n.func.attr in ("match", "search")
                and isinstance(n.func.value, ast.Attribute)
                and isinstance(n.func.value.value, ast.Name) and n.func.value.value.id == "self"):
            out.append(n.func.value.attr)
    return out


def _guard(test: ast.AST) -> str:
    if isinstance(test, ast.BoolOp) and isinstance(test.op, ast.And):
        extras = []
        for v in test.values:
            if _regex_calls(v):
                continue
            src = ast.unparse(v)
            if src == "blocklevel == 0":
                extras.append("blocklevel0")
            elif src == "incontains":
                extras.append("incontains")
            else:
                extras.append("other:" + src)
        return "&".join(extras)
    return ""


def _branch_name(test: ast.AST) -> str:
    names = _regex_calls(test)
    if names:
        # dedupe, keep order
        seen = []
        for n in names:
            if n not in seen:
                seen.append(n)
        return "|".join(seen)
    if isinstance(test, ast.Compare) and isinstance(test.left, ast.Name) and test.left.id == "line_lower":
        op = test.ops[0]
        comp = test.comparators[0]
        if isinstance(op, ast.Eq) and isinstance(comp, ast.Constant):
            return f"eq:{comp.value}"
        if isinstance(op, ast.In) and isinstance(comp, (ast.List, ast.Tuple)):
            return "in:" + ",".join(str(e.value) for e in comp.elts)
    return "expr:" + ast.unparse(test)


def get_cascade() -> list[tuple[str, str]]:
    path = common.REPO / "ford" / "sourceform.py"
    tree = ast.parse(path.read_text())
    cls = next((n for n in tree.body if isinstance(n, ast.ClassDef) and n.name == "FortranContainer"), None)
    if cls is None:
        raise ValueError("class FortranContainer not found")
    init = next((n for n in cls.body if isinstance(n, ast.FunctionDef) and n.name == "__init__"), None)
    if init is None:
        raise ValueError("FortranContainer.__init__ not found")
    loop = next((n for n in init.body if isinstance(n, ast.For)
                 and isinstance(n.target, ast.Name) and n.target.id == "line"), None)
    if loop is None:
        raise ValueError("`for line in source` loop not found")
    # the cascade is the top-level `if` of the loop whose elif chain contains CALL_RE
    casc = None
    for top in [n for n in loop.body if isinstance(n, ast.If)]:
        branches = []
        node = top
        while True:
            branches.append(node)
            if len(node.orelse) == 1 and isinstance(node.orelse[0], ast.If):
                node = node.orelse[0]
            else:
                break
        if any("CALL_RE" in _regex_calls(b.test) for b in branches):
            casc = branches
            if node.orelse:
                raise ValueError("the cascade has a final `else` branch (structure changed)")
            break
    if casc is None:
        raise ValueError("if/elif cascade with CALL_RE not found")
    out = [(_branch_name(b.test), _guard(b.test)) for b in casc]
    # what the CALL branch does must still be `_add_procedure_calls(line, associations)`
    call_branch = next(b for b in casc if "CALL_RE" in _regex_calls(b.test))
    if "_add_procedure_calls(line, associations)" not in ast.unparse(call_branch):
        raise ValueError("CALL branch no longer calls _add_procedure_calls(line, associations)")
    return out


# --------------------------------------------------------------------------
# G10: guards of the cascade that the model interprets
# --------------------------------------------------------------------------

#: branches of the cascade whose regex is generated and interpreted (boolean use only)
INTERPRETED = ("FORMAT_RE", "ARITH_GOTO_RE")


def _branch_tests() -> dict[str, ast.AST]:
    """branch name -> test expression of that branch of the cascade"""
    path = common.REPO / "ford" / "sourceform.py"
    tree = ast.parse(path.read_text())
    cls = next(n for n in tree.body if isinstance(n, ast.ClassDef) and n.name == "FortranContainer")
    init = next(n for n in cls.body if isinstance(n, ast.FunctionDef) and n.name == "__init__")
    out = {}
    for n in ast.walk(init):
        if isinstance(n, ast.If):
            nm = _branch_name(n.test)
            out.setdefault(nm, n.test)
    return out


def _call_site(test: ast.AST, name: str) -> str:
    """'match' or 'search': the branch test must be exactly `self.<name>.<method>(line)`"""
    t = test
    if isinstance(t, ast.NamedExpr):
        t = t.value
    ok = (isinstance(t, ast.Call) and isinstance(t.func, ast.Attribute) and t.func.attr in ("match", "search")
          and isinstance(t.func.value, ast.Attribute) and t.func.value.attr == name
          and isinstance(t.func.value.value, ast.Name) and t.func.value.value.id == "self"
          and len(t.args) == 1 and not t.keywords and isinstance(t.args[0], ast.Name) and t.args[0].id == "line")
    if not ok:
        raise ValueError(f"the test of branch {name} is no longer `self.{name}.match/search(line)`: {ast.unparse(test)}")
    return t.func.attr


def lean_char(code: int) -> str:
    if code > 0x10FFFF:
        raise ValueError("bad code point")
    c = chr(code)
    if c == "'":
        return "'\\''"
    if c == "\\":
        return "'\\\\'"
    if 32 <= code < 127:
        return f"'{c}'"
    return f"(Char.ofNat {code})"


def _re_term(items, P) -> str:
    """a sequence of parse-tree items -> Lean term of `Ford.Rx.Re` (right-nested `seq`)"""
    terms = [_re_item(op, av, P) for op, av in items]
    terms = [t for t in terms if t is not None]
    if not terms:
        return ".eps"
    out = terms[-1]
    for t in reversed(terms[:-1]):
        out = f"(.seq {t} {out})"
    return out


def _class_items(av, P) -> tuple[bool, list[str]]:
    neg = False
    items = []
    cats = {P.CATEGORY_SPACE: ".space", P.CATEGORY_DIGIT: ".digit", P.CATEGORY_WORD: ".word",
            P.CATEGORY_NOT_SPACE: ".nspace", P.CATEGORY_NOT_DIGIT: ".ndigit", P.CATEGORY_NOT_WORD: ".nword"}
    for op, a in av:
        if op is P.NEGATE:
            neg = True
        elif op is P.LITERAL:
            items.append(f".chr {lean_char(a)}")
        elif op is P.RANGE:
            items.append(f".range {lean_char(a[0])} {lean_char(a[1])}")
        elif op is P.CATEGORY and a in cats:
            items.append(cats[a])
        else:
            raise ValueError(f"unsupported class member {op} {a}")
    return neg, items


def _re_item(op, av, P) -> str | None:
    if op is P.LITERAL:
        return f"(.set false [.chr {lean_char(av)}])"
    if op is P.NOT_LITERAL:
        return f"(.set true [.chr {lean_char(av)}])"
    if op is P.ANY:
        return "(.set false [.notnl])"
    if op is P.IN:
        neg, items = _class_items(av, P)
        return f"(.set {'true' if neg else 'false'} [{', '.join(items)}])"
    if op is P.AT:
        if av is P.AT_BEGINNING:
            return ".bol"
        if av is P.AT_END:
            return ".eol"
        raise ValueError(f"unsupported anchor {av}")
    if op in (P.MAX_REPEAT, P.MIN_REPEAT, getattr(P, "POSSESSIVE_REPEAT", None)):
        if op is getattr(P, "POSSESSIVE_REPEAT", None):
            raise ValueError("possessive repeat is not supported")
        lo, hi, sub = av
        x = _re_term(sub, P)
        if hi is P.MAXREPEAT:
            if lo > 8:
                raise ValueError("repeat count too large")
            out = f"(.star {x})"
            for _ in range(lo):
                out = f"(.seq {x} {out})"
            return out
        if hi > 8:
            raise ValueError("repeat count too large")
        out = ".eps"
        for _ in range(hi - lo):
            out = f"(.alt (.seq {x} {out}) .eps)" if out != ".eps" else f"(.alt {x} .eps)"
        for _ in range(lo):
            out = f"(.seq {x} {out})" if out != ".eps" else x
        return out
    if op is P.SUBPATTERN:
        _group, add_flags, del_flags, sub = av
        if add_flags or del_flags:
            raise ValueError("inline flags are not supported")
        return _re_term(sub, P)
    if op is P.BRANCH:
        alts = [_re_term(a, P) for a in av[1]]
        out = alts[-1]
        for a in reversed(alts[:-1]):
            out = f"(.alt {a} {out})"
        return out
    raise ValueError(f"unsupported regex construct {op}")


def get_guards() -> list[tuple[str, str, bool, str, str]]:
    """[(branch, method, ignorecase, Lean term, pattern source)] for INTERPRETED"""
    import re
    try:
        import re._parser as P
    except ImportError:  # Python < 3.11
        import sre_parse as P
    common.import_ford()
    sf = importlib.import_module("ford.sourceform")
    FC = getattr(sf, "FortranContainer")
    tests = _branch_tests()
    out = []
    for name in INTERPRETED:
        if name not in tests:
            raise ValueError(f"no branch of the cascade is guarded by {name} alone")
        method = _call_site(tests[name], name)
        rx = getattr(FC, name, None)
        if not isinstance(rx, re.Pattern) or not isinstance(rx.pattern, str):
            raise ValueError(f"FortranContainer.{name} is not a compiled str pattern")
        allowed = re.IGNORECASE | re.UNICODE | re.VERBOSE
        if rx.flags & ~allowed:
            raise ValueError(f"{name}: unsupported flags {rx.flags}")
        tree = P.parse(rx.pattern, rx.flags)
        term = _re_term(list(tree), P)
        out.append((name, method, bool(rx.flags & re.IGNORECASE), term, rx.pattern))
    return out


def render(intr: list[str], casc: list[tuple[str, str]], guards) -> str:
    lines = ["/- GENERATED by translate/c08.py from ford/intrinsics.py and ford/sourceform.py - do not edit -/",
             "import FordModel.CallsRegex",
             "namespace Ford.Generated.C08", "",
             "/-- `ford.intrinsics.INTRINSICS` -/",
             "def intrinsics : List String := ["]
    for i in range(0, len(intr), 6):
        chunk = ", ".join(lean_str(x) for x in intr[i:i + 6])
        lines.append("  " + chunk + ("," if i + 6 < len(intr) else ""))
    lines += ["]", "",
              "/-- the `if/elif` cascade of `FortranContainer.__init__`: (branch, extra guard), in source order -/",
              "def cascade : List (String × String) := ["]
    for k, (n, g) in enumerate(casc):
        lines.append(f"  ({lean_str(n)}, {lean_str(g)})" + ("," if k + 1 < len(casc) else ""))
    lines += ["]", ""]
    for name, method, ci, term, src in guards:
        if "-/" in src:
            raise ValueError("pattern source cannot be quoted in a Lean comment")
        lines += [f"/-- parse tree of `FortranContainer.{name}` = `{src.strip()}`" + (" (IGNORECASE)" if ci else "") + " -/",
                  f"def rx{name} : Ford.Rx.Pattern := {{ ci := {'true' if ci else 'false'}, body :=",
                  f"  {term} }}", ""]
    lines += ["/-- the interpreted guards: (branch, used with `.search` (else `.match`), pattern) -/",
              "def guards : Ford.Rx.Guards := ["]
    for k, (name, method, ci, term, src) in enumerate(guards):
        lines.append(f"  ({lean_str(name)}, {'true' if method == 'search' else 'false'}, rx{name})" + ("," if k + 1 < len(guards) else ""))
    lines += ["]", "", "end Ford.Generated.C08", ""]
    return "\n".join(lines)


def translate() -> dict:
    intr = get_intrinsics()
    casc = get_cascade()
    guards = get_guards()
    common.write_if_changed(OUT, render(intr, casc, guards))
    return {"intrinsics": len(intr), "cascade": casc,
            "guards": [{"branch": g[0], "method": g[1], "ignorecase": g[2], "pattern": g[4]} for g in guards]}


if __name__ == "__main__":
    info = translate()
    print(info["intrinsics"], "intrinsics;", len(info["cascade"]), "branches")
    for b in info["cascade"]:
        print("  ", b)
    for g in info["guards"]:
        print("  ", g)
