"""Translator for C03: regenerates lean/FordModel/Generated/C03.lean from the repo.

Extracted (tables, not algorithms):
  * ford.md_admonition.ADMONITION_TYPE            -> Ford.Gen.admonitionTypes (key, css class), dict order
    (cross-checked against the alternation inside the compiled ADMONITION_RE / END_RE patterns)
  * dataclasses.fields(ford.settings.EntitySettings) -> Ford.Gen.entityFields (read_metadata's one-line heuristic)
  * AdmonitionPreprocessor.INDENT_SIZE               -> Ford.Gen.admIndentSize
  * the filter of FortranSourceFile.markdownable_items (which registered entities Project.markdown converts):
    the attribute names A of its `not hasattr(item, A)` conjuncts       -> Ford.Gen.markdownSkipAttrs
  * every attribute that a `correlate` method of ford/sourceform.py assigns on an object other than `self`
    (correlate runs between parsing and the conversion)                  -> Ford.Gen.correlateSetAttrs
A construct that cannot be found raises (counts as "tie broken").
"""
from __future__ import annotations

import ast
import dataclasses
import inspect
import re

from harness import common


def _chars(s: str) -> str:
    def one(c):
        if c == "'":
            return "'\\''"
        if c == "\\":
            return "'\\\\'"
        if not (32 <= ord(c) < 127):
            raise ValueError(f"non-printable character in table entry {s!r}")
        return f"'{c}'"
    return "[" + ", ".join(one(c) for c in s) + "]"


def _conversion_filter(sf):
    """The condition under which `FortranSourceFile.markdownable_items` keeps a registered entity: must be a
    conjunction of `isinstance(item, FortranBase)` and `not hasattr(item, "<attr>")` terms inside a loop over
    `self._to_be_markdowned`; returns the <attr>s."""
    prop = inspect.getattr_static(sf.FortranSourceFile, "markdownable_items")
    fn = prop.fget if isinstance(prop, property) else prop
    tree = ast.parse(textwrap_dedent(inspect.getsource(fn)))
    loops = [n for n in ast.walk(tree) if isinstance(n, ast.For) and isinstance(n.iter, ast.Attribute)
             and n.iter.attr == "_to_be_markdowned"]
    if len(loops) != 1 or not isinstance(loops[0].target, ast.Name):
        raise ValueError("markdownable_items no longer loops once over self._to_be_markdowned")
    var = loops[0].target.id
    ifs = [n for n in loops[0].body if isinstance(n, ast.If)]
    others = [n for n in loops[0].body if not isinstance(n, (ast.If, ast.Expr))]
    if len(ifs) > 1 or others or any(i.orelse for i in ifs):
        raise ValueError("markdownable_items: loop body is not a single `if <condition>: items.append(item)`")
    if not ifs:
        return []
    cond = ifs[0].test
    terms = cond.values if isinstance(cond, ast.BoolOp) and isinstance(cond.op, ast.And) else [cond]
    skip = []
    for t in terms:
        if isinstance(t, ast.Call) and getattr(t.func, "id", None) == "isinstance" and \
                isinstance(t.args[0], ast.Name) and t.args[0].id == var and getattr(t.args[1], "id", "") == "FortranBase":
            continue
        if isinstance(t, ast.UnaryOp) and isinstance(t.op, ast.Not) and isinstance(t.operand, ast.Call) and \
                getattr(t.operand.func, "id", None) == "hasattr" and len(t.operand.args) == 2 and \
                isinstance(t.operand.args[0], ast.Name) and t.operand.args[0].id == var and \
                isinstance(t.operand.args[1], ast.Constant) and isinstance(t.operand.args[1].value, str):
            skip.append(t.operand.args[1].value)
            continue
        raise ValueError("markdownable_items: unrecognised term in the filter: " + ast.unparse(t))
    return skip


def textwrap_dedent(src):
    import textwrap
    return textwrap.dedent(src)


def _correlate_set_attrs(sf):
    """Attributes assigned (x.attr = ..., x.attr += ..., setattr(x, "attr", ...)) on an object other than `self`
    inside any method named `correlate` of ford/sourceform.py."""
    tree = ast.parse(inspect.getsource(sf))
    out, n_methods = [], 0
    for cls in (n for n in ast.walk(tree) if isinstance(n, ast.ClassDef)):
        for f in cls.body:
            if not (isinstance(f, ast.FunctionDef) and f.name == "correlate"):
                continue
            n_methods += 1
            for n in ast.walk(f):
                tg = []
                if isinstance(n, ast.Assign):
                    tg = n.targets
                elif isinstance(n, (ast.AugAssign, ast.AnnAssign)):
                    tg = [n.target]
                elif isinstance(n, ast.Call) and getattr(n.func, "id", None) == "setattr" and len(n.args) >= 2 and \
                        isinstance(n.args[1], ast.Constant) and not (isinstance(n.args[0], ast.Name) and n.args[0].id == "self"):
                    out.append(str(n.args[1].value))
                flat = []
                for x in tg:
                    flat += list(x.elts) if isinstance(x, (ast.Tuple, ast.List)) else [x]
                for x in flat:
                    if isinstance(x, ast.Attribute) and not (isinstance(x.value, ast.Name) and x.value.id == "self"):
                        out.append(x.attr)
    if n_methods < 3:
        raise ValueError("correlate methods of ford/sourceform.py not found")
    return sorted(set(out))


def extract():
    common.import_ford()
    import ford.sourceform as SF
    import ford.md_admonition as A
    import ford.settings as S

    types = A.ADMONITION_TYPE
    if not isinstance(types, dict) or not types:
        raise ValueError("ADMONITION_TYPE is not a non-empty dict")
    for k, v in types.items():
        if not (isinstance(k, str) and isinstance(v, str) and re.fullmatch(r"[a-z]+", k)):
            raise ValueError(f"unexpected ADMONITION_TYPE entry {k!r}: {v!r}")
    alt = "|".join(types.keys())
    P = A.AdmonitionPreprocessor
    if f"@(?P<type>{alt})" not in P.ADMONITION_RE.pattern:
        raise ValueError("ADMONITION_RE is no longer built from ADMONITION_TYPE keys")
    if f"@end(?P<type>{alt})" not in P.END_RE.pattern:
        raise ValueError("END_RE is no longer built from ADMONITION_TYPE keys")
    if not (P.ADMONITION_RE.flags & re.IGNORECASE and P.END_RE.flags & re.IGNORECASE):
        raise ValueError("admonition regexes are no longer case-insensitive")
    indent = P.INDENT_SIZE
    if P.INDENT != " " * indent:
        raise ValueError("INDENT is not INDENT_SIZE blanks")
    fields = [f.name for f in dataclasses.fields(S.EntitySettings)]
    if "author" not in fields or "summary" not in fields:
        raise ValueError("EntitySettings fields not found")
    skip = _conversion_filter(SF)
    cset = _correlate_set_attrs(SF)
    for a in skip + cset:
        if not re.fullmatch(r"[A-Za-z_][A-Za-z0-9_]*", a):
            raise ValueError(f"unexpected attribute name {a!r}")
    return {"types": list(types.items()), "fields": fields, "indent": indent, "skip_attrs": skip, "correlate_set": cset}


def render(t) -> str:
    out = ["/- GENERATED by translate/c03.py from ford/md_admonition.py and ford/settings.py - do not edit -/",
           "import FordModel.Basic.Chars", "namespace Ford.Gen", "",
           "/-- `ADMONITION_TYPE` (note type, css class), in dict order -/",
           "def admonitionTypes : List (Str × Str) := ["]
    out.append(",\n".join(f"  ({_chars(k)}, {_chars(v)})" for k, v in t["types"]))
    out += ["]", "", "/-- `AdmonitionPreprocessor.INDENT_SIZE` -/",
            f"def admIndentSize : Nat := {t['indent']}", "",
            "/-- names of the `EntitySettings` fields -/", "def entityFields : List Str := ["]
    out.append(",\n".join(f"  {_chars(f)}" for f in t["fields"]))
    out += ["]", "", "/-- `FortranSourceFile.markdownable_items`: a registered entity is converted unless it has one of these attributes -/",
            "def markdownSkipAttrs : List Str := [" + ", ".join(_chars(a) for a in t["skip_attrs"]) + "]", "",
            "/-- attributes that some `correlate` method assigns on an object other than `self` -/",
            "def correlateSetAttrs : List Str := ["]
    out.append(",\n".join(f"  {_chars(a)}" for a in t["correlate_set"]))
    out += ["]", "", "end Ford.Gen", ""]
    return "\n".join(out)


def translate():
    t = extract()
    common.write_if_changed(common.LEAN / "FordModel" / "Generated" / "C03.lean", render(t))
    return t


if __name__ == "__main__":
    print(render(extract()))
