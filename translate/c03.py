"""Translator for C03: regenerates lean/FordModel/Generated/C03.lean from the repo.

Extracted (tables, not algorithms).  Wherever a table is a property of what a function DOES rather than of how it is
spelt, it is obtained by probing the real function on stub inputs, not by matching its source text:
  * ford.md_admonition.ADMONITION_TYPE            -> Ford.Gen.admonitionTypes (key, css class), dict order
    (cross-checked by probing the compiled ADMONITION_RE / END_RE: on `@<word>` / `@end<word>` for every key, every
    key in upper case, and near-miss words, the `type` group is the first key - in dict order - that is a prefix of
    the word, case-insensitively, and there is no match when no key is; the pattern *text* is not looked at)
  * dataclasses.fields(ford.settings.EntitySettings) -> Ford.Gen.entityFields (read_metadata's one-line heuristic)
  * AdmonitionPreprocessor.INDENT_SIZE               -> Ford.Gen.admIndentSize
  * the filter of FortranSourceFile.markdownable_items (which registered entities Project.markdown converts):
    the attribute names A such that a registered entity carrying A is left out  -> Ford.Gen.markdownSkipAttrs
    (probed: a small real file is parsed, one attribute at a time - every attribute name that occurs anywhere in
    ford/sourceform.py - is put on a registered entity, and `markdownable_items` is asked again)
  * every attribute that a `correlate` method of ford/sourceform.py assigns on an object other than `self`, also
    through helper methods / module functions it calls (correlate runs between parsing and the conversion)
                                                                           -> Ford.Gen.correlateSetAttrs
  * FortranReader.include(): where each of the four markers of the nested reader that reads an included file comes
    from - the enclosing reader's marker number i, or a constant - probed by reading a file with an include line
    under two different marker configurations with a spy on FortranReader.__init__     -> Ford.Gen.includeMarkSrc
A construct that cannot be found raises (counts as "tie broken").
"""
from __future__ import annotations

import ast
import dataclasses
import inspect
import re
import tempfile
import textwrap
from pathlib import Path

from harness import common


def _chars(s: str) -> str:
    def one(c):
        if c == "'":
            return "'\\''"
        if c == "\\":
            return "'\\\\'"
        if not (32 <= ord(c) < 127):
            raise ValueError(f"non-printable character in table entry {s!r}")
        return f"'{c}'"
    return "[" + ", ".join(one(c) for c in s) + "]"


IDENT = re.compile(r"[A-Za-z_][A-Za-z0-9_]*\Z")


def _attr_universe(sf):
    """Every name that occurs in ford/sourceform.py as an attribute (`x.name`) or as an identifier-like string
    constant (`hasattr(x, "name")`, `getattr`, ...): the candidates for the conversion filter probe."""
    tree = ast.parse(inspect.getsource(sf))
    names = set()
    for n in ast.walk(tree):
        if isinstance(n, ast.Attribute):
            names.add(n.attr)
        elif isinstance(n, ast.Constant) and isinstance(n.value, str) and IDENT.match(n.value):
            names.add(n.value)
    return sorted(names)


PROBE_SOURCE = ["module probe_m", "integer :: probe_v", "!! text", "type :: probe_t", "integer :: probe_c", "end type",
                "contains", "subroutine probe_s(probe_a)", "integer :: probe_a", "end subroutine", "end module"]


def _probe_project(d: Path):
    import ford.fortran_project
    import ford.sourceform as sf
    from ford.settings import ProjectSettings

    (d / "probe.f90").write_text("".join(l + "\n" for l in PROBE_SOURCE))
    s = ProjectSettings(src_dir=[d], preprocess=False, graph=False, search=False, warn=False, dbg=True, quiet=True)
    sf.namelist = sf.NameSelector()
    with common.quiet():
        p = ford.fortran_project.Project(s)
    files = list(p.allfiles)
    if len(files) != 1:
        raise ValueError("probe project: the probe file was not parsed")
    return files[0]


def _conversion_filter(sf):
    """Which attributes take a registered entity out of `FortranSourceFile.markdownable_items`.  Probed on a real
    (tiny) parsed file: for every candidate attribute name that the entity does not have yet, the attribute is set,
    the property is read again and the attribute removed.  The spelling of the property (loop or comprehension,
    inline condition or helper, literal or constant) is immaterial."""
    with tempfile.TemporaryDirectory(prefix="ford-verif-c03-") as td:
        src = _probe_project(Path(td))
        base = list(src.markdownable_items)
        ents = [x for x in base if x is not src and isinstance(x, sf.FortranBase)]
        if src not in base or len(ents) < 5:
            raise ValueError("markdownable_items: the file itself / its registered entities are not returned "
                             f"({len(ents)} entities of the probe file)")
        skip = []
        sentinel = "probe"
        for ent in (ents[0], ents[-1]):
            found = []
            for a in _attr_universe(sf):
                if a.startswith("__") or hasattr(ent, a):
                    continue
                try:
                    object.__setattr__(ent, a, sentinel)
                except Exception:
                    continue
                try:
                    now = list(src.markdownable_items)
                except Exception as e:
                    raise ValueError(f"markdownable_items raised with attribute {a!r} on an entity: {e}") from None
                finally:
                    try:
                        object.__delattr__(ent, a)
                    except Exception:
                        pass
                if not any(x is ent for x in now):
                    found.append(a)
                elif len(now) != len(base):
                    raise ValueError(f"markdownable_items: attribute {a!r} on one entity changed the others")
            skip.append(found)
        if skip[0] != skip[1]:
            raise ValueError(f"markdownable_items: the filter differs between kinds of entities: {skip}")
        if [x for x in src.markdownable_items] != base:
            raise ValueError("markdownable_items: probe did not restore the entities")
        return skip[0]


def _assigned_attrs(fn: ast.AST, self_name):
    """attribute names assigned inside `fn` on an object other than `self_name` (None: on any object)"""
    out = []
    for n in ast.walk(fn):
        tg = []
        if isinstance(n, ast.Assign):
            tg = n.targets
        elif isinstance(n, (ast.AugAssign, ast.AnnAssign)):
            tg = [n.target]
        elif isinstance(n, ast.Call) and getattr(n.func, "id", None) == "setattr" and len(n.args) >= 2 and \
                isinstance(n.args[1], ast.Constant) and \
                not (isinstance(n.args[0], ast.Name) and n.args[0].id == self_name):
            out.append(str(n.args[1].value))
        flat = []
        for x in tg:
            flat += list(x.elts) if isinstance(x, (ast.Tuple, ast.List)) else [x]
        for x in flat:
            if isinstance(x, ast.Attribute) and not (isinstance(x.value, ast.Name) and x.value.id == self_name):
                out.append(x.attr)
    return out


def _correlate_set_attrs(sf):
    """Attributes assigned (x.attr = ..., x.attr += ..., setattr(x, "attr", ...)) on an object other than `self`
    inside any method named `correlate` of ford/sourceform.py - or inside a helper it calls: a method of the same
    module called as `self.helper(...)` (there `self` is still the correlating object), a module-level function
    or a `Class.helper(...)` call (there every object counts).  Helpers are followed transitively."""
    tree = ast.parse(inspect.getsource(sf))
    classes = [n for n in ast.walk(tree) if isinstance(n, ast.ClassDef)]
    methods: dict = {}
    for cls in classes:
        for f in cls.body:
            if isinstance(f, ast.FunctionDef):
                methods.setdefault(f.name, []).append(f)
    functions = {f.name: f for f in tree.body if isinstance(f, ast.FunctionDef)}
    class_names = {c.name for c in classes}
    out, n_methods = [], 0
    seen = set()

    def self_of(f):
        args = f.args.posonlyargs + f.args.args
        deco = {getattr(d, "id", getattr(d, "attr", None)) for d in f.decorator_list}
        if "staticmethod" in deco or not args:
            return None
        return args[0].arg

    def scan(f, self_name, depth):
        key = (id(f), self_name)
        if key in seen or depth > 4:
            return
        seen.add(key)
        out.extend(_assigned_attrs(f, self_name))
        for n in ast.walk(f):
            if not isinstance(n, ast.Call):
                continue
            fn = n.func
            if isinstance(fn, ast.Attribute) and isinstance(fn.value, ast.Name):
                if fn.value.id == self_name and self_name is not None and fn.attr != "correlate":
                    for h in methods.get(fn.attr, []):
                        scan(h, self_of(h), depth + 1)
                elif fn.value.id in class_names and fn.attr != "correlate":
                    for h in methods.get(fn.attr, []):
                        scan(h, None, depth + 1)
            elif isinstance(fn, ast.Name) and fn.id in functions:
                scan(functions[fn.id], None, depth + 1)

    for cls in classes:
        for f in cls.body:
            if isinstance(f, ast.FunctionDef) and f.name == "correlate":
                n_methods += 1
                scan(f, self_of(f), 0)
    if n_methods < 3:
        raise ValueError("correlate methods of ford/sourceform.py not found")
    return sorted(set(out))


def _first_prefix_key(keys, word):
    w = word.lower()
    for k in keys:
        if w.startswith(k):
            return k
    return None


def _check_admonition_regexes(P, keys):
    """ADMONITION_RE / END_RE recognise exactly the note types of the table, case-insensitively, an earlier key of
    the dict winning over a later one (alternation order) - decided by probing the compiled patterns."""
    words = set()
    for k in keys:
        words |= {k, k.upper(), k.capitalize(), k[:-1], k + "x", "x" + k, "end" + k, k[1:], k + k}
    words |= {"", "e", "end", "zz"}
    for w in sorted(words):
        want = _first_prefix_key(keys, w)
        for rex, text, what in ((P.ADMONITION_RE, f"  @{w} tail", "ADMONITION_RE"), (P.END_RE, f"x @end{w} tail", "END_RE")):
            m = rex.search(text)
            got = m["type"].lower() if m else None
            if got != want:
                raise ValueError(f"{what} on {text!r}: type {got!r}, the ADMONITION_TYPE table says {want!r}")
            if m and what == "ADMONITION_RE" and (m["indent"], m["posttxt"]) != ("  ", w[len(want):] + " tail"):
                raise ValueError(f"ADMONITION_RE on {text!r}: groups {m.groupdict()!r}")
            if m and what == "END_RE" and (m["posttxt"] or "") != (w[len(want):] + " tail").lstrip():
                raise ValueError(f"END_RE on {text!r}: groups {m.groupdict()!r}")


def _include_mark_sources(R):
    """Where the four markers of the nested reader of an included file come from.  Probed: a file with an include
    line is read under two marker configurations, a spy on `FortranReader.__init__` records the arguments every
    reader is constructed with (bound to the signature, so positional / keyword spelling is immaterial)."""
    cls = R.FortranReader
    orig = cls.__init__
    sig = inspect.signature(orig)
    params = list(sig.parameters)[1:]  # without self: filename, then the four markers
    if len(params) < 5:
        raise ValueError("FortranReader.__init__ no longer takes a file name and four markers")
    recs = []

    def spy(self, *a, **k):
        b = sig.bind(self, *a, **k)
        b.apply_defaults()
        recs.append([b.arguments[p] for p in params[:5]])
        return orig(self, *a, **k)

    probes = [("a1", "b2", "c3", "d4"), ("w5", "x6", "y7", "z8")]
    seen = []
    with tempfile.TemporaryDirectory(prefix="ford-verif-c03-") as td:
        main, inc = Path(td) / "probe_main.f90", Path(td) / "probe_part.inc"
        main.write_text("x = 1\ninclude 'probe_part.inc'\nz = 3\n")
        inc.write_text("y = 2\n")
        cls.__init__ = spy
        try:
            for marks in probes:
                recs.clear()
                with common.quiet():
                    items = list(cls(str(main), *marks))
                if "y = 2" not in items:
                    raise ValueError(f"FortranReader: the probe include file was not read ({items})")
                nested = [r[1:] for r in recs if str(r[0]).endswith("probe_part.inc")]
                if len(nested) != 1:
                    raise ValueError("FortranReader.include: no nested FortranReader is constructed for the included file")
                seen.append(nested[0])
        finally:
            cls.__init__ = orig
    out = []
    for j in range(4):
        a, b = seen[0][j], seen[1][j]
        if a in probes[0] and b in probes[1] and probes[0].index(a) == probes[1].index(b):
            out.append(("outer", probes[0].index(a)))
        elif a == b and isinstance(a, str):
            out.append(("const", a))
        else:
            raise ValueError(f"FortranReader.include: marker {j} of the nested reader is {a!r} / {b!r} for outer markers "
                             f"{probes[0]} / {probes[1]}")
    return out


def markdown_summary(SF, doc, url, meta_summary=None, conv_summary=None, doc_list=("x",)):
    """The real `FortranBase.markdown` on a bare entity with a stand-in for the Markdown instance: the first
    `convert` (the comment) returns `doc`, the second one (the `summary:` metadata, if the code converts it)
    returns `conv_summary`.  Returns (meta.summary, texts handed to convert)."""
    from ford.settings import EntitySettings

    class _Bare(SF.FortranBase):
        filename = "bare.f90"

        def __init__(self):
            pass

        def get_url(self):
            return url

    class _Md:
        def __init__(self):
            self.handed = []

        def reset(self):
            return self

        def convert(self, text, context=None, **kw):
            self.handed.append(text)
            return doc if len(self.handed) == 1 else conv_summary

    e = _Bare()
    e.doc_list = list(doc_list)
    e.name = "bare"
    e.obj = "variable"
    e.meta = EntitySettings()
    e.meta.summary = meta_summary
    md = _Md()
    e.markdown(md)
    if getattr(e, "doc", None) != doc:
        raise ValueError("FortranBase.markdown: `doc` is not what convert returned")
    return e.meta.summary, md.handed


def _read_more_template(SF):
    """The constant text before / after the URL in the link that `FortranBase.markdown` appends to a shortened
    summary, by probing with two URLs; checks on the way that nothing is appended when the summary is the whole
    documentation or when the entity has no URL."""
    doc = "<p>first</p>\n<p>second</p>"
    got = []
    for url in ("proc/alpha.html", "module/beta.html#variable-gamma"):
        sm, _ = markdown_summary(SF, doc, url)
        if not isinstance(sm, str) or not sm.startswith("<p>first</p>") or sm.count(url) != 1:
            raise ValueError(f"FortranBase.markdown: unexpected summary {sm!r} for a two-paragraph doc with URL {url!r}")
        rest = sm[len("<p>first</p>"):]
        got.append((rest[:rest.index(url)], rest[rest.index(url) + len(url):]))
    if got[0] != got[1] or not got[0][0]:
        raise ValueError(f"FortranBase.markdown: the link appended to a shortened summary is not <const> url <const>: {got}")
    if markdown_summary(SF, "<p>only</p>", "proc/alpha.html")[0] != "<p>only</p>":
        raise ValueError("FortranBase.markdown: a link is appended although the summary is the whole documentation")
    if markdown_summary(SF, doc, None)[0] != doc:
        raise ValueError("FortranBase.markdown: an entity without URL does not get its whole documentation as summary")
    return got[0]


def extract():
    common.import_ford()
    import ford.sourceform as SF
    import ford.md_admonition as A
    import ford.settings as S
    import ford.reader as R

    types = A.ADMONITION_TYPE
    if not isinstance(types, dict) or not types:
        raise ValueError("ADMONITION_TYPE is not a non-empty dict")
    for k, v in types.items():
        if not (isinstance(k, str) and isinstance(v, str) and re.fullmatch(r"[a-z]+", k)):
            raise ValueError(f"unexpected ADMONITION_TYPE entry {k!r}: {v!r}")
    P = A.AdmonitionPreprocessor
    _check_admonition_regexes(P, list(types.keys()))
    indent = P.INDENT_SIZE
    if P.INDENT != " " * indent:
        raise ValueError("INDENT is not INDENT_SIZE blanks")
    fields = [f.name for f in dataclasses.fields(S.EntitySettings)]
    if "author" not in fields or "summary" not in fields:
        raise ValueError("EntitySettings fields not found")
    skip = _conversion_filter(SF)
    cset = _correlate_set_attrs(SF)
    for a in skip + cset:
        if not IDENT.match(a):
            raise ValueError(f"unexpected attribute name {a!r}")
    inc = _include_mark_sources(R)
    rm = _read_more_template(SF)
    return {"types": list(types.items()), "fields": fields, "indent": indent, "skip_attrs": skip, "correlate_set": cset,
            "include_marks": inc, "read_more": rm}


def render(t) -> str:
    out = ["/- GENERATED by translate/c03.py from ford/md_admonition.py, ford/settings.py, ford/sourceform.py and "
           "ford/reader.py - do not edit -/",
           "import FordModel.Basic.Chars", "namespace Ford.Gen", "",
           "/-- `ADMONITION_TYPE` (note type, css class), in dict order -/",
           "def admonitionTypes : List (Str × Str) := ["]
    out.append(",\n".join(f"  ({_chars(k)}, {_chars(v)})" for k, v in t["types"]))
    out += ["]", "", "/-- `AdmonitionPreprocessor.INDENT_SIZE` -/",
            f"def admIndentSize : Nat := {t['indent']}", "",
            "/-- names of the `EntitySettings` fields -/", "def entityFields : List Str := ["]
    out.append(",\n".join(f"  {_chars(f)}" for f in t["fields"]))
    out += ["]", "", "/-- `FortranSourceFile.markdownable_items`: a registered entity is converted unless it has one of these attributes -/",
            "def markdownSkipAttrs : List Str := [" + ", ".join(_chars(a) for a in t["skip_attrs"]) + "]", "",
            "/-- attributes that some `correlate` method assigns on an object other than `self` -/",
            "def correlateSetAttrs : List Str := ["]
    out.append(",\n".join(f"  {_chars(a)}" for a in t["correlate_set"]))
    out += ["]", "",
            "/-- `FortranReader.include`: for the doc / pre / alt / pre-alt marker of the nested reader that reads an",
            "    included file, where it comes from: `.inl i` = marker number `i` (same numbering) of the enclosing",
            "    reader, `.inr s` = the constant `s` -/",
            "def includeMarkSrc : List (Sum Nat Str) := [" +
            ", ".join(f".inl {v}" if k == "outer" else f".inr {_chars(v)}" for k, v in t["include_marks"]) + "]",
            "",
            "/-- `FortranBase.markdown`: the text before / after the URL in the link appended to a shortened summary (probed) -/",
            f"def readMorePre : Str := {_chars(t['read_more'][0])}",
            f"def readMoreSuf : Str := {_chars(t['read_more'][1])}",
            "", "end Ford.Gen", ""]
    return "\n".join(out)


def translate():
    t = extract()
    common.write_if_changed(common.LEAN / "FordModel" / "Generated" / "C03.lean", render(t))
    return t


if __name__ == "__main__":
    print(render(extract()))
