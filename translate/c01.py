"""Tables of lean/FordModel/Generated/C01.lean, regenerated from the working tree of FORD on every run.

Round 5: the tables follow the MEANING of the code, not its spelling.

  structure   `cascade` - the if/elif chain of FortranContainer.__init__ (which regular expression decides a
              branch, with which extra guard), found as the longest chain inside the statement loop, with the local
              variables alpha-renamed in order of first use (`v1 == 'contains'`, `v2 == 0`, ...), constant
              containers of an `in` test normalised, and one-line helper functions / methods inlined;
  objects     `hasattrTable` - which list attributes an object of every container class HAS while its statements
              are read (observed on real objects at the moment `_cleanup` is entered, by a profile hook);
              `canHaveContains` - the run-time value of `_can_have_contains`;
  patterns    regular expressions are taken from the COMPILED objects and compared with the pattern the Lean
              scanner was written for by meaning: equal parse trees (`re._parser.parse`, so re.VERBOSE layout,
              comments, raw-string splitting and flag spelling do not matter), else an exhaustive differential
              run over token sequences derived from the pattern; the table carries the modelled text when the
              compiled pattern is equivalent to it and the compiled text otherwise;
  behaviour   the statements the models mirror (masking loop, restoring loop, attribute bookkeeping, the branch
              and the initialiser of a derived type, the name / specification split of an entity, the matching
              of dummy arguments) are PROBED: the real functions run on a fixed list of inputs and what they
              do is recorded; Props/C01.lean proves (`decide`) that the models compute exactly that.

A probe that cannot be run, or a construct that cannot be found, raises (= tie broken, never a pass)."""
from __future__ import annotations

import ast
import copy
import itertools
import random
import re
import sys

try:  # Python >= 3.11
    import re._parser as sre_parse
except ImportError:  # pragma: no cover
    import sre_parse  # type: ignore

from harness import common

GENERATED = common.LEAN / "FordModel" / "Generated" / "C01.lean"


# ---------------------------------------------------------------------------------------------------------
# Lean literals
# ---------------------------------------------------------------------------------------------------------

def lean_str(s):
    out = []
    for ch in s:
        if ch == "\\":
            out.append("\\\\")
        elif ch == '"':
            out.append('\\"')
        elif ch == "\n":
            out.append("\\n")
        elif ch == "\t":
            out.append("\\t")
        elif 32 <= ord(ch) < 127:
            out.append(ch)
        else:
            out.append("\\u{%x}" % ord(ch))
    return '"' + "".join(out) + '"'


def lean_char(ch):
    if ch == "'":
        return "'\\''"
    if ch == "\\":
        return "'\\\\'"
    if 32 <= ord(ch) < 127:
        return "'%s'" % ch
    return "Char.ofNat %d" % ord(ch)


def lc(s):
    """a `Str` (= List Char) literal"""
    return "[" + ", ".join(lean_char(c) for c in s) + "]"


def llist(xs, f=lc):
    return "[" + ", ".join(f(x) for x in xs) + "]"


def lopt(x, f=lc):
    return "none" if x is None else "(some %s)" % f(x)


def lbool(b):
    return "true" if b else "false"


def sources():
    src = (common.REPO / "ford" / "sourceform.py").read_text()
    return src, ast.parse(src)


def _class(tree, name):
    return next(n for n in tree.body if isinstance(n, ast.ClassDef) and n.name == name)


WORD = re.compile(r"[A-Za-z_]+(\([a-z]*\))?")


def vocabulary():
    """every keyword-like string constant of ford/sourceform.py (`public`, `intent(in)`, `external`, ...: wherever it
    stands - in a comparison, a list, a module-level table) and every literal word of its compiled regular expressions
    (`asynchronous`, `volatile`, `extends`, ...), lower-cased.  The behaviour probes use these words as inputs, so a rewrite
    that makes the code treat one more word specially (or one fewer) is met by a probe with exactly that word."""
    common.import_ford()
    import ford.sourceform as sf

    _, tree = sources()
    words = set()
    for n in ast.walk(tree):
        if isinstance(n, ast.Constant) and isinstance(n.value, str) and len(n.value) <= 16 and WORD.fullmatch(n.value):
            words.add(n.value.lower())
    holders = [sf] + [c for c in vars(sf).values() if isinstance(c, type) and c.__module__ == sf.__name__]
    for h in holders:
        for v in vars(h).values():
            if isinstance(v, re.Pattern):
                try:
                    ws, _ = _literal_words(v.pattern, v.flags)
                except Exception:  # noqa
                    continue
                words |= {w.lower() for w in ws if WORD.fullmatch(w) and len(w) <= 16}
    return sorted(words)


def _method(cls, name):
    return next(n for n in cls.body if isinstance(n, ast.FunctionDef) and n.name == name)


# ---------------------------------------------------------------------------------------------------------
# regular expressions: compiled object -> canonical (pattern, flags)
# ---------------------------------------------------------------------------------------------------------

IGNORED_FLAGS = re.VERBOSE | re.UNICODE


def flag_names(flags):
    return [f.name for f in re.RegexFlag if f.value and f in re.RegexFlag(flags & ~IGNORED_FLAGS) and f.name]


def parse_tree(pattern, flags):
    p = sre_parse.parse(pattern, flags)
    return repr(p), p.state.groups, sorted(p.state.groupdict.items()), (p.state.flags & ~IGNORED_FLAGS)


def _literal_words(pattern, flags):
    """maximal runs of literal characters of the pattern, and every literal character"""
    words, chars = set(), set()

    def walk(items):
        run = ""
        for op, arg in items:
            if op is sre_parse.LITERAL:
                run += chr(arg)
                chars.add(chr(arg))
                continue
            if len(run) > 1:
                words.add(run)
            run = ""
            if op is sre_parse.IN:
                for o2, a2 in arg:
                    if o2 is sre_parse.LITERAL:
                        chars.add(chr(a2))
                    elif o2 is sre_parse.RANGE:
                        chars.add(chr(a2[0]))
            elif op is sre_parse.NOT_LITERAL:
                chars.add(chr(arg))
            elif op is sre_parse.BRANCH:
                for alt in arg[1]:
                    walk(alt)
            elif op in (sre_parse.MAX_REPEAT, sre_parse.MIN_REPEAT):
                walk(arg[2])
            elif op is sre_parse.SUBPATTERN:
                walk(arg[3])
            elif op in (sre_parse.ASSERT, sre_parse.ASSERT_NOT):
                walk(arg[1])
            elif getattr(sre_parse, "ATOMIC_GROUP", None) is not None and op is sre_parse.ATOMIC_GROUP:
                walk(arg)
        if len(run) > 1:
            words.add(run)

    walk(sre_parse.parse(pattern, flags))
    return words, chars


def differential_corpus(pattern, flags, budget=60000):
    """strings on which two spellings of one pattern must agree: every sequence of up to L tokens (the words of
    the pattern in both letter cases, its literal characters, one representative of every character class that
    matters to FORD's patterns - also a non-ASCII letter, digit and blank and the Kelvin sign, on which `\\w`, `\\d`,
    `\\s` and IGNORECASE differ from their ASCII look-alikes), L as large as the budget allows, plus random longer
    sequences"""
    words, chars = _literal_words(pattern, flags)
    alphabet = sorted(words | {w.upper() for w in words} | {w + "x" for w in words} | chars
                      | set(" \tx1_,:()*='\"") | {"X", "\n", "::", "é", "\u0663", "\xa0", "\u212a"})
    L = 1
    while len(alphabet) ** (L + 1) <= budget and L < 6:
        L += 1
    out = [""]
    for n in range(1, L + 1):
        out += ["".join(t) for t in itertools.product(alphabet, repeat=n)]
    rng = random.Random(20240501)
    for _ in range(budget // 3):
        out.append("".join(rng.choice(alphabet) for _ in range(rng.randint(L + 1, L + 6))))
    return out


def _behaviour(rx, s):
    m, f = rx.match(s), rx.search(s)
    return (None if m is None else (m.span(), m.groups()), None if f is None else (f.span(), f.groups()))


def same_meaning(pattern, flags, modelled_pattern, modelled_flags):
    """'tree' / 'differential:<n>' when the compiled pattern means what the modelled one means, else None"""
    try:
        if parse_tree(pattern, flags) == parse_tree(modelled_pattern, modelled_flags):
            return "tree"
        a, b = re.compile(pattern, flags), re.compile(modelled_pattern, modelled_flags)
    except re.error:
        return None
    if a.groups != b.groups or a.groupindex != b.groupindex:
        return None
    corpus = differential_corpus(modelled_pattern, modelled_flags)
    for s in corpus:
        if _behaviour(a, s) != _behaviour(b, s):
            return None
    return "differential:%d" % len(corpus)


def canon_regex(rx, modelled, flag_style="re."):
    """(pattern text, flags text, how) of a compiled pattern `rx` (or a (pattern, flags) pair): the modelled text
    when `rx` means the same, its own text otherwise"""
    pattern, flags = (rx.pattern, rx.flags) if hasattr(rx, "pattern") else rx
    mp, mf = modelled
    how = same_meaning(pattern, flags, mp, mf)
    if how is None:
        names = flag_names(flags)
        if flags & re.VERBOSE:
            names.append("VERBOSE")
        return pattern, _flags_text(names, flag_style), "differs from the modelled pattern"
    return mp, _flags_text(flag_names(mf), flag_style), how


def _flags_text(names, style):
    if style == "re.":
        return " | ".join("re." + n for n in names)
    return "+".join(names)


I = re.IGNORECASE
# the patterns the scanners of the Lean models were written for (the same texts stand in Props/C01.lean)
MODELLED = {
    "QUOTES_RE": (r"\"([^\"]|\"\")*\"|'([^']|'')*'", I),
    "NBSP_RE": (r" (?= )|(?<= ) ", 0),
    "DIM_RE": (r"^\w+\s*(\(.*\))\s*$", 0),
    "TYPE_RE": (r"^type(?:\s+|\s*(,.*)?::\s*)((?!(?:is\s*\())\w+)\s*(\([^()]*\))?\s*$", I),
    "EXTENDS_RE": (r"extends\s*\(\s*(?P<base>[^()\s]+)\s*\)", I),
    "SPLIT_RE": (r"\s*,\s*", I),
    "VARIABLE_RE": (r"^(integer|real|double\s*precision|character|complex|double\s*complex|logical|type(?!\s+is)|"
                    r"class(?!\s+is|\s+default)|procedure|enumerator)\s*((?:\(|\s\w|[:,*]).*)$", I),
}


# ---------------------------------------------------------------------------------------------------------
# the cascade (structure): alpha-renamed, helpers inlined
# ---------------------------------------------------------------------------------------------------------

def _chain(node):
    out = []
    while True:
        out.append(node)
        if len(node.orelse) == 1 and isinstance(node.orelse[0], ast.If):
            node = node.orelse[0]
        else:
            return out, node.orelse


def _bound_names(fn):
    names = {a.arg for a in fn.args.args + fn.args.kwonlyargs + fn.args.posonlyargs}
    for n in ast.walk(fn):
        if isinstance(n, ast.Name) and isinstance(n.ctx, ast.Store):
            names.add(n.id)
    names.discard("self")
    return names


def _single_return(fn):
    body = list(fn.body)
    if body and isinstance(body[0], ast.Expr) and isinstance(body[0].value, ast.Constant) and isinstance(body[0].value.value, str):
        body = body[1:]
    if len(body) == 1 and isinstance(body[0], ast.Return) and body[0].value is not None:
        return body[0].value
    return None


class _Subst(ast.NodeTransformer):
    def __init__(self, mapping):
        self.mapping = mapping

    def visit_Name(self, node):
        if node.id in self.mapping:
            return copy.deepcopy(self.mapping[node.id])
        return node


def inline_helpers(expr, tree, cls, depth=0):
    """calls of one-line helpers (`self._is_x(line)`, `_is_x(line)`: a function whose body is one `return <expr>`)
    are replaced by that expression with the arguments substituted"""
    if depth > 3:
        return expr
    methods = {n.name: n for n in cls.body if isinstance(n, ast.FunctionDef)} if cls is not None else {}
    funcs = {n.name: n for n in tree.body if isinstance(n, ast.FunctionDef)}

    class T(ast.NodeTransformer):
        def visit_Call(self, node):
            self.generic_visit(node)
            fn, skip_self = None, False
            if isinstance(node.func, ast.Attribute) and isinstance(node.func.value, ast.Name) and node.func.value.id == "self":
                fn, skip_self = methods.get(node.func.attr), True
            elif isinstance(node.func, ast.Name):
                fn = funcs.get(node.func.id)
            if fn is None or node.keywords:
                return node
            ret = _single_return(fn)
            params = [a.arg for a in fn.args.args]
            if skip_self and params and params[0] in ("self", "cls"):
                params = params[1:]
            if ret is None or len(params) != len(node.args) or fn.args.vararg or fn.args.kwarg:
                return node
            new = _Subst(dict(zip(params, node.args))).visit(copy.deepcopy(ret))
            return inline_helpers(new, tree, cls, depth + 1)

    return T().visit(copy.deepcopy(expr))


class _Alpha(ast.NodeTransformer):
    """bound names -> v1, v2, ... in order of first occurrence (shared map); constant containers of `in` tests are
    written as a sorted tuple; the regular-expression test `self.X_RE.match(<anything>)`, with or without a walrus,
    becomes the name `X_RE.match`"""

    def __init__(self, bound, mapping):
        self.bound, self.mapping = bound, mapping

    def visit_NamedExpr(self, node):
        r = _regex_call(node.value)
        if r is not None:
            self.mapping.setdefault(node.target.id, "v%d" % (len(self.mapping) + 1))
            return ast.Name(id=r, ctx=ast.Load())
        return self.generic_visit(node)

    def visit_Call(self, node):
        r = _regex_call(node)
        if r is not None:
            return ast.Name(id=r, ctx=ast.Load())
        return self.generic_visit(node)

    def visit_Name(self, node):
        if node.id in self.bound:
            return ast.Name(id=self.mapping.setdefault(node.id, "v%d" % (len(self.mapping) + 1)), ctx=node.ctx)
        return node

    def visit_Compare(self, node):
        node = self.generic_visit(node)
        for i, (op, c) in enumerate(zip(node.ops, node.comparators)):
            if isinstance(op, (ast.In, ast.NotIn)) and isinstance(c, (ast.List, ast.Tuple, ast.Set)) \
                    and all(isinstance(e, ast.Constant) for e in c.elts):
                node.comparators[i] = ast.Tuple(elts=sorted(c.elts, key=lambda e: repr(e.value)), ctx=ast.Load())
        return node


def _regex_call(e):
    """`self.X_RE.match(..)` / `.search(..)` (also `type(self).X_RE`, `cls.X_RE`, `FortranContainer.X_RE`) -> `X_RE.match`"""
    if isinstance(e, ast.Call) and isinstance(e.func, ast.Attribute) and e.func.attr in ("match", "search", "fullmatch"):
        v = e.func.value
        if isinstance(v, ast.Attribute) and v.attr.endswith("_RE"):
            return v.attr + "." + e.func.attr
        if isinstance(v, ast.Name) and v.id.endswith("_RE"):
            return v.id + "." + e.func.attr
    return None


def cascade():
    _, tree = sources()
    cls = _class(tree, "FortranContainer")
    init = _method(cls, "__init__")
    best = []
    for loop in [n for n in ast.walk(init) if isinstance(n, ast.For)]:
        for st in loop.body:
            if isinstance(st, ast.If):
                ch, tail = _chain(st)
                if len(ch) > len(best):
                    best, best_tail = ch, tail
    if len(best) < 20:
        raise ValueError("the statement cascade (an if/elif chain of at least 20 branches inside a loop of "
                         "FortranContainer.__init__) was not found")
    if best_tail:
        raise ValueError("cascade ends with a non-empty else branch")
    bound, mapping = _bound_names(init), {}
    out = []
    for node in best:
        test = inline_helpers(node.test, tree, cls)
        alpha = _Alpha(bound, mapping)
        if isinstance(test, ast.BoolOp) and isinstance(test.op, ast.And):
            # the conjunct that asks a regular expression is the head, wherever it stands (`v3 == 0 and X_RE.match(..)`
            # decides the same branch as `X_RE.match(..) and v3 == 0`); the other conjuncts keep their order
            def asks_regex(v):
                return _regex_call(v.value if isinstance(v, ast.NamedExpr) else v) is not None
            k = next((i for i, v in enumerate(test.values) if asks_regex(v)), 0)
            values = [test.values[k]] + test.values[:k] + test.values[k + 1:]
            parts = [ast.unparse(alpha.visit(copy.deepcopy(v))) for v in values]
            out.append((parts[0], " and ".join(parts[1:])))
        elif isinstance(test, ast.BoolOp) and isinstance(test.op, ast.Or):
            out.append((" or ".join(ast.unparse(alpha.visit(copy.deepcopy(v))) for v in test.values), ""))
        else:
            out.append((ast.unparse(alpha.visit(copy.deepcopy(test))), ""))
    return out


# ---------------------------------------------------------------------------------------------------------
# objects: what `hasattr(self, "<list>")` sees, `_can_have_contains`
# ---------------------------------------------------------------------------------------------------------

ATTRS = ["modules", "submodules", "programs", "blockdata", "subroutines", "functions", "types", "interfaces",
         "absinterfaces", "enums", "boundprocs", "finalprocs", "variables", "uses", "calls", "common", "namelists",
         "modprocedures", "modprocs", "attr_dict"]
CLASSES = {"file": "FortranSourceFile", "module": "FortranModule", "submodule": "FortranSubmodule",
           "program": "FortranProgram", "subroutine": "FortranSubroutine", "function": "FortranFunction",
           "modprocImpl": "FortranModuleProcedureImplementation", "type": "FortranType",
           "interface": "FortranInterface", "enum": "FortranEnum", "blockdata": "FortranBlockData"}

HASATTR_PROBE = """module probe_m
  type probe_t
    integer :: c
  contains
    procedure :: b => probe_s
  end type probe_t
  interface probe_g
    module procedure probe_s
  end interface probe_g
  interface
    module subroutine probe_sep()
    end subroutine probe_sep
  end interface
  enum, bind(c)
    enumerator :: probe_e
  end enum
contains
  subroutine probe_s(x)
    class(probe_t) :: x
  end subroutine probe_s
  function probe_f()
  end function probe_f
end module probe_m
submodule (probe_m) probe_sm
contains
  module procedure probe_sep
  end procedure probe_sep
end submodule probe_sm
program probe_p
end program probe_p
block data probe_bd
end block data probe_bd
"""


def hasattr_table():
    """list attributes of a live object of every container class at the moment its END statement is met (the
    cascade asks `hasattr(self, ..)` for every statement in between); the file object after its last statement"""
    common.import_ford()
    from ford.settings import ProjectSettings
    from ford.sourceform import FortranSourceFile

    seen = {}

    def prof(frame, event, arg):
        if event == "call" and frame.f_code.co_name == "_cleanup":
            obj = frame.f_locals.get("self")
            if obj is not None:
                key = type(obj).__name__
                attrs = tuple(a for a in ATTRS if hasattr(obj, a))
                if id(obj) not in seen.setdefault("ids", set()):
                    seen["ids"].add(id(obj))
                    if seen.setdefault(key, attrs) != attrs:
                        raise ValueError(f"two {key} objects differ in their list attributes")
        return None

    with common.scratch_dir("ford-c01-hasattr-") as d:
        p = d / "probe.f90"
        p.write_text(HASATTR_PROBE)
        old = sys.getprofile()
        sys.setprofile(prof)
        try:
            with common.quiet():
                fobj = FortranSourceFile(str(p), ProjectSettings())
        finally:
            sys.setprofile(old)
    seen["FortranSourceFile"] = tuple(a for a in ATTRS if hasattr(fobj, a))
    table = {}
    for key, cname in CLASSES.items():
        if cname not in seen:
            raise ValueError(f"no object of class {cname} was observed while the probe file was read")
        table[key] = sorted(seen[cname])
        if not table[key]:
            raise ValueError(f"no list attributes found for {cname}")
    import ford.sourceform as sf
    return table, [c.__name__ for c in sf._can_have_contains]


# ---------------------------------------------------------------------------------------------------------
# behaviour probes
# ---------------------------------------------------------------------------------------------------------

MASK_PROBES = [
    "x", "x = 'a'", 'x = "a"', "x = 'a' // \"b\"", 'bits(2) = ["1", "0"]', "c = '0' // \"0\"//\"abc\"", "s = 'it''s'",
    's = "say ""hi"""', "s = '\"'", 's = "\'"', "a = '', b = \"\"", "v = (/ \"2\",\"0\",\"3\" /)", "t = 'a'\"b\"",
    "u = 'open", 'w = "0" // "0" // "1" // \'2\'', "k = 'x y', m = '!b;c&'", "q = ''''", "z = 'a' 'b'", "n = \"\"\"\"",
    "e = 'a''", "f = \"a\" // 'b' // \"c\" // 'd' // \"e\" // 'f' // \"g\" // 'h' // \"i\" // 'j' // \"k\" // 'l'",
]

RESTORE_PROBES = [
    ("n", []), ('"0"', ["'abc'"]), ('"0"//"1"', ["'a'", '"b"']), ('"1"//"0"', ["'a'", '"b"']), ('"0"//"0"', ["'x  y'"]),
    ('["0","1","2"]'.replace(",", "//"), ['"1"', '"0"', "'2'"]), ('"2"', ["'a'", "'b'"]), ('"a"', ["'a'"]), ('""', ["'a'"]),
    ('"0"', ["abc"]), ('"0"', ["'a\\b'"]), ('"0"', ["'\\1'"]), ("'0'", ["\"q\""]), ('"01"', ["'a'", "'b'"]),
    ('"0"//x//"0"', ["' lead'"]), ('"0"', ["'trail  '"]), ('"0"', ["'\"0\"'"]), ('"1"', ['"0"', "'\"0\"'"]),
    ('x"0"', ["''"]), ('"0"', ["'"]), ('"10"', ["'a'"] * 11), ('"0""1"', ["'a'", "'b'"]),
]

ENTITY_PROBES = [
    "x", "x(3)", "x(2,3)", "c*10", "c*(10)", "buf*(*)", "line*(80)", "w(3)*4", "w(3)*(4)", "q(n)*(2*n)", "a[*]", "b(2)[*]",
    "b(2)[2,*]", "d(n*2)", "e[n*2,*]", "s*(:)", "f(3)[*]*8", "g[*]*(*)", "h(*)", "(x)", "*x", "[x]", "(a)*2", "*(*)", "", "k*",
    "m(", "p*(n(1))", "r[s(1),*]", "t*2(3)",
]

# (dummy argument names, entities of the declarations in the body, in order)
ARG_PROBES = [
    (["buf", "n", "line"], ["buf*(*)", "line*(80)", "n", "tmp*(80)", "words(10)*8"]),
    (["a", "b"], ["b(3)", "a"]), (["A", "b"], ["a(:)", "B*4"]), (["a", "zz"], ["a[*]", "loc(2)[*]"]),
    (["x"], ["y", "z*2"]), ([], ["y(2)"]), (["p", "q"], []), (["c"], ["c(3)*4", "d*(*)"]),
    (["s1", "s2"], ["S2*(*)", "t", "S1(n)*(n)"]),
]


class _Src:
    """what `read_docstring` needs from a reader: no documentation follows"""

    def __init__(self):
        self.back = []

    def __next__(self):
        return "end module"

    def __iter__(self):
        return self

    def pass_back(self, line):
        self.back.append(line)


def _holder(d):
    import ford.sourceform as sf
    from ford.settings import ProjectSettings

    p = d / "holder.f90"
    p.write_text("module holder\nend module holder\n")
    with common.quiet():
        return sf.FortranSourceFile(str(p), ProjectSettings()).modules[0]


def mask_probes(ford, d):
    """the real masking loop on one-statement files: [(line, ["ok", masked, *strings] | ["err", class])]"""
    from harness import c01_mask

    out = []
    for payload in MASK_PROBES:
        obs, why = c01_mask.impl_mask(ford, d / "mask_probe.f90", "integer :: " + payload + "\n")
        if obs is None:
            raise ValueError(f"masking probe {payload!r} cannot be observed: {why}")
        line, masked, strs = obs
        out.append((line, ["err", strs] if masked == "exc" else ["ok", masked] + list(strs)))
    return out


def restore_probes(ford, d):
    import ford.sourceform as sf

    parent = _holder(d)
    out = []
    for text, strs in RESTORE_PROBES:
        parent.strings = list(strs)
        try:
            with common.quiet():
                vs = sf.line_to_variables(_Src(), "integer :: x=" + text, "public", parent)
            if len(vs) != 1 or vs[0].name != "x":
                raise ValueError(f"restoring probe {text!r}: line_to_variables answered {[(v.name, v.initial) for v in vs]!r}")
            res = ["ok", vs[0].initial or ""]
        except (ValueError, IndexError, AttributeError) as e:
            if isinstance(e, ValueError) and str(e).startswith("restoring probe"):
                raise
            res = ["err", type(e).__name__]
        out.append((text, list(strs), res))
    return out


def ownership_probes(ford, d):
    """who owns the attribute list of a variable (Attribs.lean: value semantics)"""
    import ford.sourceform as sf

    parent = _holder(d)
    parent.strings = []
    with common.quiet():
        u, v = sf.line_to_variables(_Src(), "real, save :: u, v", "public", parent)
        shared = u.attribs is v.attribs
        u.attribs.append("target")
        leak = "target" in v.attribs
        given = ["save"]
        w = sf.FortranVariable("w", "real", parent, given)
        w.attribs.append("volatile")
        d1 = sf.FortranVariable("d1", "real", parent)
        d1.attribs.append("pointer")
        d2 = sf.FortranVariable("d2", "real", parent)
    return [("the entities of one declaration own different attribute lists", not shared and not leak),
            ("a variable does not share the list it was constructed with", given == ["save"]),
            ("two variables constructed without attributes do not share a list", d2.attribs == [])]


def attr_probes(ford, d):
    """specification parts (the generator of the `attrs` stream with fixed seeds + hand-written ones that visit every
    branch of the mirrored statements) read by the real FortranSourceFile"""
    from ford.settings import ProjectSettings
    from ford.sourceform import FortranSourceFile
    from harness import c01_attrs as ca

    cases = [
        ("module", [("D", "real", ["save"], [("u", "", None), ("v", "", None)]), ("A", "target", " :: ", "u"), ("A", "dimension", " ", "v(3)")]),
        ("subroutine", [("D", "integer", ["INTENT( in out )", "OPTIONAL"], [("xa", "(3)", None)]), ("A", "Intent(In)", " ", "xa"),
                        ("A", "public", " :: ", "xa"), ("A", "value", " ", "Xa")]),
        ("module", [("D", "logical", ["Parameter", "private"], [("q", "", ".true.")]), ("D", "integer", [], [("n", "", None), ("kk", "", None)]),
                    ("A", "PARAMETER", "", "( n = 3, kk=n+1 )"), ("A", "protected", " ", "kk")]),
        ("module", [("D", "real", [], [("a", "", None), ("b", "", None), ("c", "", None)]), ("A", "target", " :: ", "a(3)"),
                    ("A", "dimension", " ", "b (2)"), ("A", "allocatable", " :: ", "c(:), a"), ("A", "pointer", " ", "zz9")]),
        ("program", [("D", "real", ["EXTERNAL"], [("f1", "", None)]), ("D", "real", ["external"], [("f2", "", None)]),
                     ("D", "real", [], [("f3", "", None)]), ("A", "external", " ", "f3")]),
        ("blockdata", [("D", "integer", ["save"], [("xa", "", None), ("xb", "(2)", None)]), ("A", "target", " ", "xa"),
                       ("A", "Public", " ", "xa, xa"), ("A", "data", " ", "xa /1/")]),
        ("function", [("D", "logical", [], [("q", "", None)]), ("A", "parameter", " ", "(q = n == 1)"), ("A", "bind(c,name=cname)", " :: ", "q")]),
        ("module", [("D", "integer", ["dimension(pointer_n)", "codimension[*]"], [("w_1", "", None)]), ("A", "dimension", " ", "w_1(pointer_n)"),
                    ("A", "volatile", "::", "W_1 , undeclared")]),
        ("module", [("D", "integer", [], [("n", "", None)]), ("A", "parameter", " ", "(n)")]),
        ("subroutine", [("A", "save", " ", "ye"), ("D", "real", ["intent (out)"], [("Ye", "", None), ("ZF", "", "1.0e0")]),
                        ("A", "asynchronous", " :: ", "zf"), ("A", "INTENT( inout )", " ", "ZF")]),
    ]
    rng = random.Random(50001)
    saved, ca.VOCAB = ca.VOCAB, []  # the fixed part of the probe list does not depend on the vocabulary
    try:
        cases += [ca.gen_attr_case(rng) for _ in range(30)]
    finally:
        ca.VOCAB = saved
    # every keyword-like word of the source as an attribute of a declaration, and - where the real ATTRIB_RE takes it
    # for the keyword of an attribute statement - as such a statement
    import ford.sourceform as sf
    for k, w in enumerate(vocabulary()):
        unit = ("module", "subroutine", "blockdata", "program", "function")[k % 5]
        spelled = w if k % 2 else w.upper()
        cases.append((unit, [("D", "real", [spelled], [("xa", "(2)", None)])]))
        rest = {"parameter": "(xa = 1)", "data": "xa /1/"}.get(w, "xa")
        sep = "" if w == "parameter" else (" " if w == "data" else " :: ")
        for spelled in (w, w.upper()):
            m = sf.FortranContainer.ATTRIB_RE.match(spelled + sep + rest)
            if m is not None and m.group(1) == spelled and m.group(2) == rest:
                cases.append((unit, [("D", "real", [], [("xa", "", None)]), ("A", spelled, sep, rest)]))
    cfg = ca.probe_cfg()
    out = []
    p = d / "attr_probe.f90"
    for unit, stmts in cases:
        p.write_text(ca.render_attr_case(unit, stmts))
        try:
            with common.quiet():
                fobj = FortranSourceFile(str(p), ProjectSettings())
            res = ("ok", ca.obs_vars(ca.unit_of(fobj, unit)))
        except Exception as e:  # noqa
            res = (type(e).__name__, [])
        out.append((unit == "blockdata", stmts, res))
    return cfg, out


def type_probes(ford, d):
    """statements at the place of a derived type definition inside a module, read by the real FortranSourceFile"""
    from harness import c01_thead as th

    stmts = ["type isotope", "TYPE  :: Is_Stable_t", "type, Extends( isotope ) ,PRIVATE , abstract::island", "type is (integer)",
             "TYPE IS(isotope)", "type(isotope) :: x", "type pdt(k, n)", "type :: t ( k )", "type,public::a", "type, bind(c) :: b",
             "type , EXTERNAL, Public :: c", "type,extends(a),extends(b)::d", "type ::", "type", "type t u", "type, :: e",
             "type is_t", "Type ISO_DATE", "type :: is", "type is", "class is (t)", "type, abstract, private :: f", "type\tg",
             "type,  xextends(q)y :: h", "type, extends() :: i", "type, a b :: j", "type :: k :: l"]
    # every keyword-like word of the source as an attribute of the definition
    for k, w in enumerate(vocabulary()):
        stmts.append("type, %s :: vt" % w if k % 2 else "type,%s::vt" % w.upper())
    stmts = [x for x in dict.fromkeys(stmts) if th.observable(x)]
    rng = random.Random(50002)
    n_random = len(stmts) + 35
    saved, th.VOCAB = th.VOCAB, []
    while len(stmts) < n_random:
        kind, s = th.gen_stmt(rng)
        s = s.strip()
        if th.observable(s) and all(c == "\t" or 32 <= ord(c) < 127 for c in s) and s not in stmts:
            stmts.append(s)
    th.VOCAB = saved
    out = []
    for k, s in enumerate(stmts):
        private = k % 3 == 1
        im = th.impl_typestmt(ford, d / "type_probe.f90", s, private)
        if im[0] == "some":
            n = int(im[4])
            res = {"name": im[1], "base": None if im[2] == "-" else im[2][1:], "permission": im[3], "attribs": im[5:5 + n],
                   "parameters": im[5 + n:]}
        elif im[0] == "many":
            res = {"name": "<%s types>" % im[1], "base": None, "permission": "", "attribs": [], "parameters": []}
        else:  # none, or the statement belongs to another branch and `end type` then closes the module
            res = None
        out.append(("private" if private else "public", s, res))
    return out


def entity_probes(ford, d):
    import ford.sourceform as sf

    parent = _holder(d)
    out = []
    for txt in ENTITY_PROBES:
        with common.quiet():
            v = sf.FortranVariable(txt, "character", parent)
        out.append((txt, str(v.name), str(v.dimension)))
    return out


def arg_probes(ford, d):
    from ford.settings import ProjectSettings
    from ford.sourceform import FortranSourceFile

    out = []
    p = d / "arg_probe.f90"
    for args, ents in ARG_PROBES:
        text = "subroutine probe_s(%s)\n" % ", ".join(args) + "".join("  character %s\n" % e for e in ents) + "end subroutine probe_s\n"
        p.write_text(text)
        with common.quiet():
            s = FortranSourceFile(str(p), ProjectSettings()).subroutines[0]
        res_args = []
        for a in s.args:
            # a declared argument keeps the object its declaration made (it has a `dimension` from the entity text and
            # the declared type); an undeclared one is a fresh implicitly typed variable
            if getattr(a, "vartype", None) == "character":
                res_args.append(("declared", str(a.name), str(a.dimension)))
            else:
                res_args.append(("implicit", str(getattr(a, "name", a)), ""))
        out.append((args, ents, res_args, [(str(v.name), str(v.dimension)) for v in s.variables]))
    return out


# the statement that opens a function: the real FUNCTION_RE on fixed statements (both orders of the suffix items, every
# prefix form, keyword-like names, statements of other kinds, malformed ones)
FUNC_PROBES = [
    "function f()", "function f", "function f(x)", "FUNCTION F ( X , Y )", "function f(x) result(r)", "function f(x) RESULT ( r )",
    "function f(x) bind(c)", "function f(x) bind(c, name=\"0\")", "function f(x) result(r) bind(c)", "function f(x) bind(c) result(r)",
    "function f(x) result(r) bind(c, name=\"0\")", "function f(x) bind(c, name=\"0\") result(r)", "function f(x)bind(c)result(r)",
    "function f(x)result(r)bind(c)", "pure function f(x) Bind ( C ) Result( r )", "integer function f(x)", "integer(8) pure function f(x) result(r)",
    "recursive  function  f ( x )  result ( r )", "type(t) function f(a, b)", "function result(bind) result(function)",
    "function bind(result) bind(c) result(bind_r)", "function f(x) result(r) result(q)", "function f(x) bind(c) bind(d)",
    "function f(a(1))", "function f(x) result()", "function f(x) result(a b)", "function f(x) bind(c", "function", "function ", "functionf()",
    "end function f", "integer :: function_x", "x = result(bind(3))", " function f()", "elemental function function(function)",
    "module function f(x) result(res)", "function f(x) bind(c) result(r) ", "function f(x)  result( r )  bind( c )",
]


def func_probes(ford):
    from ford.sourceform import FortranContainer

    out = []
    for s in FUNC_PROBES:
        m = FortranContainer.FUNCTION_RE.match(s)
        out.append((s, None if m is None else m.groupdict()))
    return out


# ---------------------------------------------------------------------------------------------------------
# patterns
# ---------------------------------------------------------------------------------------------------------

def pattern_tables(ford, d):
    import ford.sourceform as sf
    from ford.settings import ProjectSettings

    p = d / "varre.f90"
    p.write_text("module m\nend module m\n")
    with common.quiet():
        variable_re = sf.FortranSourceFile(str(p), ProjectSettings()).VARIABLE_RE
    split_re = getattr(sf.FortranType, "SPLIT_RE", None) or sf.FortranBase.SPLIT_RE
    t = {
        "quotesRe": canon_regex(sf.QUOTES_RE, MODELLED["QUOTES_RE"]),
        "nbspRe": canon_regex(sf.NBSP_RE, MODELLED["NBSP_RE"]),
        "dimRe": canon_regex(sf.DIM_RE, MODELLED["DIM_RE"]),
        "typeRe": canon_regex(sf.FortranContainer.TYPE_RE, MODELLED["TYPE_RE"]),
        "extendsRe": canon_regex(sf.EXTENDS_RE, MODELLED["EXTENDS_RE"]),
        "splitRe": canon_regex(split_re, MODELLED["SPLIT_RE"]),
        "variableRe": canon_regex(variable_re, MODELLED["VARIABLE_RE"]),
    }
    return t


# ---------------------------------------------------------------------------------------------------------
# writing Generated/C01.lean
# ---------------------------------------------------------------------------------------------------------

# how each compiled pattern was found to mean the modelled one in the last run (`tree` / `differential:<n>`), for the evidence
REGEX_HOW: dict = {}


def _items(rows):
    return ["  %s%s" % (r, "," if i < len(rows) - 1 else "") for i, r in enumerate(rows)]


def _stmt(s):
    if s[0] == "D":
        _, typ, attrs, ents = s
        return ".decl %s %s" % (llist(attrs), llist(ents, lambda e: "⟨%s, %s, %s⟩" % (lc(e[0]), lc(e[1]), lopt(e[2]))))
    _, kw, sep, rest = s
    return ".attr %s %s" % (lc(kw), lc(rest))


def _var(v):
    name, attribs, dim, intent, optional, perm, param, initial = v
    return "⟨%s, %s, %s, %s, %s, %s, %s, %s⟩" % (lc(name), llist(attribs), lc(dim), lc(intent), lbool(optional), lc(perm),
                                                 lbool(param), lopt(initial))


def translate():
    ford = common.import_ford()
    casc = cascade()
    table, chc = hasattr_table()
    with common.scratch_dir("ford-c01-translate-") as d:
        pats = pattern_tables(ford, d)
        mk = mask_probes(ford, d)
        rs = restore_probes(ford, d)
        own = ownership_probes(ford, d)
        cfg, at = attr_probes(ford, d)
        tp = type_probes(ford, d)
        en = entity_probes(ford, d)
        ar = arg_probes(ford, d)
        fp = func_probes(ford)
    L = ["/- GENERATED by translate/c01.py from the working tree of FORD (structure by ast, objects / patterns / behaviour",
         "   by running the real code on fixed probes) - do not edit -/",
         "import FordModel.Attribs", "import FordModel.TypeHead", "import FordModel.Entity", "import FordModel.FuncHead",
         "namespace Ford.Generated.C01", "open Ford", "",
         "/-- (branch test, extra guard) of the cascade in FortranContainer.__init__, in source order; local variables",
         "    alpha-renamed in order of first use, one-line helpers inlined -/",
         "def cascade : List (String × String) := ["]
    L += _items(["(%s, %s)" % (lean_str(a), lean_str(b)) for a, b in casc])
    L += ["]", "", "/-- container class -> the list attributes a live object has while its statements are read (what `hasattr` sees) -/",
          "def hasattrTable : List (String × List String) := ["]
    L += _items(["(%s, [%s])" % (lean_str(k), ", ".join(lean_str(a) for a in v)) for k, v in table.items()])
    L += ["]", "", "/-- the classes in the run-time value of `_can_have_contains` -/",
          "def canHaveContains : List String := [%s]" % ", ".join(lean_str(c) for c in chc), ""]
    docs = {"quotesRe": "QUOTES_RE", "nbspRe": "NBSP_RE", "dimRe": "DIM_RE", "typeRe": "FortranContainer.TYPE_RE", "extendsRe": "EXTENDS_RE",
            "splitRe": "SPLIT_RE", "variableRe": "VARIABLE_RE of a source file without extra_vartypes"}
    for k, (pat, flags, how) in pats.items():
        REGEX_HOW[docs[k]] = how
        L += ["/-- compiled `%s`: [pattern, flags] - the modelled text when the compiled pattern means the same -/" % docs[k],
              "def %s : List String := [%s, %s]" % (k, lean_str(pat), lean_str(flags)), ""]
    L += ["/-- the masking loop of FortranContainer.__init__ on one-statement files: (line, ok :: masked line :: strings | err :: class) -/",
          "def maskProbes : List (Str × List Str) := ["]
    L += _items(["(%s, %s)" % (lc(a), llist(b)) for a, b in mk])
    L += ["]", "", "/-- the restoring loop of line_to_variables: (initial value as masked, parent.strings, [ok, initial] | [err, class]) -/",
          "def restoreProbes : List (Str × List Str × List Str) := ["]
    L += _items(["(%s, %s, %s)" % (lc(a), llist(b), llist(c)) for a, b, c in rs])
    L += ["]", "", "/-- who owns the attribute list of a variable (observed on live objects) -/",
          "def attribsOwnership : List (String × Bool) := ["]
    L += _items(["(%s, %s)" % (lean_str(a), lbool(b)) for a, b in own])
    L += ["]", "", "/-- the variant of the four repairable places of the attribute bookkeeping, decided by probing (harness/c01_attrs.probe_cfg) -/",
          "def attrCfg : Attribs.Cfg := ⟨%s⟩" % ", ".join(lbool(x == "1") for x in cfg), "",
          "/-- specification parts read by the real FortranSourceFile: (block data?, statements, (ok | exception class, variables of the unit)) -/",
          "def attrProbes : List (Bool × List Attribs.Stmt × Str × List Attribs.Var) := ["]
    L += _items(["(%s, %s, %s, %s)" % (lbool(bd), llist(stmts, _stmt), lc(res[0]), llist(res[1], _var)) for bd, stmts, res in at])
    L += ["]", "", "/-- a statement at the place of a type definition in a module with the given default accessibility: the FortranType recorded -/",
          "def typeProbes : List (Str × Str × Option TypeHead.TypeInfo) := ["]
    L += _items(["(%s, %s, %s)" % (lc(inh), lc(s), "none" if r is None else "some ⟨%s, %s, %s, %s, %s⟩" % (
        lc(r["name"]), lopt(r["base"]), llist(r["attribs"]), lc(r["permission"]), llist(r["parameters"]))) for inh, s, r in tp])
    L += ["]", "", "/-- FortranVariable(<entity text>, ..): (text, name, dimension) -/",
          "def entityProbes : List (Str × Entity.Var) := ["]
    L += _items(["(%s, ⟨%s, %s⟩)" % (lc(t), lc(n), lc(dm)) for t, n, dm in en])
    L += ["]", "", "/-- a subroutine with these dummy arguments and these declared entities: (args, entities, self.args, self.variables) -/",
          "def argProbes : List (List Str × List Str × List Entity.Arg × List Entity.Var) := ["]
    L += _items(["(%s, %s, %s, %s)" % (llist(a), llist(e), llist(ra, lambda x: (".declared ⟨%s, %s⟩" % (lc(x[1]), lc(x[2]))) if x[0] == "declared"
                                                            else ".implicit %s" % lc(x[1])),
                                       llist(rv, lambda x: "⟨%s, %s⟩" % (lc(x[0]), lc(x[1])))) for a, e, ra, rv in ar])
    L += ["]", "", "/-- FortranContainer.FUNCTION_RE.match(<statement>): the five named groups -/",
          "def funcProbes : List (Str × Option FuncHead.Groups) := ["]
    L += _items(["(%s, %s)" % (lc(t), "none" if g is None else "some ⟨%s, %s, %s, %s, %s⟩" % (
        lopt(g["attributes"]), lc(g["name"]), lopt(g["arguments"]), lopt(g["result"]), lopt(g["bindC"]))) for t, g in fp])
    L += ["]", "", "end Ford.Generated.C01", ""]
    common.write_if_changed(GENERATED, "\n".join(L))
    return casc, table, chc


if __name__ == "__main__":
    c, t, h = translate()
    for row in c:
        print(row)
    for k, v in t.items():
        print(k, v)
    print(h)
