"""G8/G9 for C05: the lists each `prune()` empties / filters / marks visible / recurses into
(ast of FortranCodeUnit.prune, FortranType.prune, FortranBlockData.prune in ford/sourceform.py),
the CONTAINERS map and the code-unit chain of Project.correlate (ford/fortran_project.py), the
(entity list -> page class) map of Documentation.__init__ (ford/output.py), and normalised source
pins of the hand-modelled functions `_set_display`, `_should_display`, `filter_display`,
`FortranBase.__str__`.  Written to lean/FordModel/Generated/C05.lean on every run.

A construct that cannot be found raises (tie broken, never a pass)."""
import ast
import hashlib

from harness import common


def _classes(path):
    tree = ast.parse((common.REPO / path).read_text())
    return tree, {n.name: n for n in tree.body if isinstance(n, ast.ClassDef)}


def _method(classes, cname, mname):
    cls = classes[cname]
    for n in cls.body:
        if isinstance(n, ast.FunctionDef) and n.name == mname:
            return n
    raise ValueError(f"{cname}.{mname} not found")


def _self_attr(node):
    if isinstance(node, ast.Attribute) and isinstance(node.value, ast.Name) and node.value.id == "self":
        return node.attr
    return None


def _iter_lists(it):
    """names of the lists a `for` iterates over: self.iterator('a','b') | self.a + self.b | self.a"""
    if isinstance(it, ast.Call) and ast.unparse(it.func) == "self.iterator":
        return [a.value for a in it.args if isinstance(a, ast.Constant)]
    if isinstance(it, ast.BinOp) and isinstance(it.op, ast.Add):
        return _iter_lists(it.left) + _iter_lists(it.right)
    a = _self_attr(it)
    if a:
        return [a]
    raise ValueError(f"unrecognised loop iterable in prune: {ast.unparse(it)}")


def analyse_prune(fn):
    """-> dict(guard, emptied, filtered, cond_filtered [(cond, list)], visible_only, recurse)"""
    res = {"guard": "", "emptied": [], "filtered": [], "cond_filtered": [], "visible_only": [], "recurse": [], "other": []}

    def assigns(stmts, into, cond=None):
        for st in stmts:
            if isinstance(st, ast.Expr) and isinstance(st.value, ast.Constant):
                continue  # docstring
            if isinstance(st, ast.Assign) and len(st.targets) == 1 and _self_attr(st.targets[0]):
                name = _self_attr(st.targets[0])
                v = st.value
                if isinstance(v, ast.List) and not v.elts:
                    res["emptied"].append(name) if into == "guard" else res["other"].append(ast.unparse(st))
                elif (isinstance(v, ast.Call) and ast.unparse(v.func) == "self.filter_display" and len(v.args) == 1
                      and _self_attr(v.args[0]) == name):
                    if cond is None and into == "body":
                        res["filtered"].append(name)
                    elif into == "body":
                        res["cond_filtered"].append((cond, name))
                    else:
                        res["other"].append(ast.unparse(st))
                else:
                    res["other"].append(ast.unparse(st))
            elif isinstance(st, ast.Return) and into == "guard":
                continue
            elif isinstance(st, ast.If) and into == "body" and cond is None and not st.orelse:
                if any(isinstance(s, ast.Return) for s in st.body):
                    if res["guard"]:
                        raise ValueError("two early-return guards in prune")
                    res["guard"] = ast.unparse(st.test)
                    assigns(st.body, "guard")
                else:
                    assigns(st.body, "body", ast.unparse(st.test))
            elif isinstance(st, ast.For) and into == "body" and cond is None:
                lists = _iter_lists(st.iter)
                var = ast.unparse(st.target)
                body = [ast.unparse(s) for s in st.body]
                if body == [f"{var}.visible = True"]:
                    res["visible_only"] += lists
                elif body == [f"{var}.visible = True", f"{var}.prune()"]:
                    res["recurse"] += lists
                else:
                    res["other"].append(ast.unparse(st))
            else:
                res["other"].append(ast.unparse(st))

    assigns(fn.body, "body")
    return res


def norm_src(fn):
    """normalised source of a function without its docstring"""
    body = list(fn.body)
    if body and isinstance(body[0], ast.Expr) and isinstance(body[0].value, ast.Constant) and isinstance(body[0].value.value, str):
        body = body[1:]
    return "\n".join(ast.unparse(s) for s in body)


def pin(fn):
    return hashlib.sha256(norm_src(fn).encode()).hexdigest()[:16]


def lean_str(s):
    return '"' + s.replace("\\", "\\\\").replace('"', '\\"').replace("\n", "\\n") + '"'


def lean_list(xs):
    return "[" + ", ".join(lean_str(x) for x in xs) + "]"


def lean_pairs(xs):
    return "[" + ", ".join(f"({lean_str(a)}, {lean_str(b)})" for a, b in xs) + "]"


def extract():
    _, classes = _classes("ford/sourceform.py")
    cu = analyse_prune(_method(classes, "FortranCodeUnit", "prune"))
    ty = analyse_prune(_method(classes, "FortranType", "prune"))
    bd = analyse_prune(_method(classes, "FortranBlockData", "prune"))
    # which classes define / inherit a prune at all
    has_prune = sorted(c for c, n in classes.items() if any(isinstance(m, ast.FunctionDef) and m.name == "prune" for m in n.body))
    if not cu["filtered"] or not ty["filtered"] or not bd["filtered"]:
        raise ValueError("a prune() filters nothing")
    pins = {
        "_set_display": pin(_method(classes, "FortranBase", "_set_display")),
        "_should_display": pin(_method(classes, "FortranBase", "_should_display")),
        "filter_display": pin(_method(classes, "FortranBase", "filter_display")),
        "__str__": pin(_method(classes, "FortranBase", "__str__")),
    }
    srcs = {k: norm_src(_method(classes, "FortranBase", k)) for k in pins}

    # correlate: prune loop, CONTAINERS, chain
    _, pclasses = _classes("ford/fortran_project.py")
    corr = _method(pclasses, "Project", "correlate")
    containers = None
    chain = None
    prune_loop = None
    ranklist_src = []
    for node in ast.walk(corr):
        if isinstance(node, ast.Assign) and ast.unparse(node.targets[0]) == "CONTAINERS" and isinstance(node.value, ast.Dict):
            containers = [(k.value, v.value) for k, v in zip(node.value.keys, node.value.values)]
        if isinstance(node, ast.For) and ast.unparse(node.target) == "code_unit":
            it = node.iter
            if isinstance(it, ast.Call) and ast.unparse(it.func) == "chain":
                chain = [a.attr for a in it.args if isinstance(a, ast.Attribute)]
        if isinstance(node, ast.For) and ast.unparse(node.iter) == "ranklist":
            body = [ast.unparse(s) for s in node.body]
            if any("prune()" in b for b in body):
                prune_loop = "\n".join(body)
        if isinstance(node, (ast.Assign, ast.Expr, ast.For)):
            s = ast.unparse(node)
            if "ranklist" in s and not isinstance(node, ast.For):
                ranklist_src.append(s)
            elif isinstance(node, ast.For) and "ranklist.append" in s:
                ranklist_src.append(s)
    if containers is None or chain is None or prune_loop is None:
        raise ValueError("CONTAINERS / code-unit chain / prune loop not found in Project.correlate")

    # output: entity_list_page_map
    otree, oclasses = _classes("ford/output.py")
    init = _method(oclasses, "Documentation", "__init__")
    page_map = None
    extra = []
    for node in ast.walk(init):
        if isinstance(node, ast.AnnAssign) and ast.unparse(node.target) == "entity_list_page_map":
            page_map = [(e.elts[0].attr, ast.unparse(e.elts[1])) for e in node.value.elts]
        if isinstance(node, ast.If) and "entity_list_page_map.append" in ast.unparse(node):
            for st in node.body:
                call = st.value
                e = call.args[0]
                extra.append((ast.unparse(node.test), e.elts[0].attr, ast.unparse(e.elts[1])))
    if not page_map:
        raise ValueError("entity_list_page_map not found in Documentation.__init__")
    links = extract_links(classes, pclasses)
    more = extract_round3(classes, pclasses)
    return dict(more=more, cu=cu, ty=ty, bd=bd, has_prune=has_prune, pins=pins, srcs=srcs, containers=containers, chain=chain,
                prune_loop=prune_loop, ranklist=ranklist_src, page_map=page_map, page_map_extra=extra, links=links)


def extract_round3(classes, pclasses):
    """entity kinds no `prune()` knows: where namelists get their pages (`Project._fortran_file` collects them when
    a file is read), which `routines` are scanned, which page templates have a namelist section, which classes are
    `visible` from their construction on, and pins of the correlate steps that move entities between lists before
    `prune()` runs (`FortranCommon.correlate` takes the member variables out of the parent's `variables`,
    `FortranType.correlate` adds the inherited components / bindings, `FortranNamelist.correlate` resolves the
    variable names)."""
    import re

    ff = _method(pclasses, "Project", "_fortran_file")
    check = [n for n in ast.walk(ff) if isinstance(n, ast.FunctionDef) and n.name == "namelist_check"]
    if len(check) != 1 or len(check[0].args.args) != 1:
        raise ValueError("Project._fortran_file: helper namelist_check(entity) not found")
    arg = check[0].args.args[0].arg
    if norm_src(check[0]) != f"self.namelists.extend(getattr({arg}, 'namelists', []))":
        raise ValueError("namelist_check does not have the shape self.namelists.extend(getattr(entity, 'namelists', []))")
    collect = []
    for st in ff.body:
        if not (isinstance(st, ast.For) and isinstance(st.iter, ast.Attribute) and ast.unparse(st.iter.value) == "new_file"):
            if "namelist_check(" in ast.unparse(st) and not isinstance(st, ast.FunctionDef):
                raise ValueError("namelist_check called outside a `for x in new_file.<list>` loop: " + ast.unparse(st)[:80])
            continue
        var = ast.unparse(st.target)
        direct = routines = False
        for b in st.body:
            src = ast.unparse(b)
            if src == f"namelist_check({var})":
                direct = True
            elif (isinstance(b, ast.For) and ast.unparse(b.iter) == f"{var}.routines"
                  and [ast.unparse(x) for x in b.body] == [f"namelist_check({ast.unparse(b.target)})"]):
                routines = True
            elif "namelist_check(" in src:
                raise ValueError("unrecognised use of namelist_check: " + src[:80])
        collect.append((st.iter.attr, direct, routines))
    if not any(d or r for _, d, r in collect):
        raise ValueError("Project._fortran_file collects no namelists")
    rt = _method(classes, "FortranBase", "routines")
    calls = [n for n in ast.walk(rt) if isinstance(n, ast.Call) and ast.unparse(n.func) == "self.iterator"]
    if len(calls) != 1 or not all(isinstance(a, ast.Constant) for a in calls[0].args):
        raise ValueError("FortranBase.routines is not self.iterator(<literals>)")
    routines_lists = [a.value for a in calls[0].args]
    if _defining(classes, "routines") != ["FortranBase"]:
        raise ValueError("`routines` is overridden: " + str(_defining(classes, "routines")))
    # page templates with a namelist section: `{% for <x> in <obj>.namelists %}` + namelist_panel
    sections = []
    for t in sorted((common.REPO / "ford/templates").glob("*_page.html")):
        txt = t.read_text()
        if re.search(r"\{%-?\s*for\s+\w+\s+in\s+\w+\.namelists\s*-?%\}", txt) and "namelist_panel" in txt:
            sections.append(t.name)
    if not sections:
        raise ValueError("no page template renders namelists")
    # classes whose `_initialize` / `__init__` ends with `self.visible = True` unconditionally
    vis = []
    for cname, node in classes.items():
        for m in node.body:
            if isinstance(m, ast.FunctionDef) and m.name in ("_initialize", "__init__"):
                if any(isinstance(x, ast.Assign) and ast.unparse(x) == "self.visible = True" for x in m.body):
                    vis.append(cname)
    # `visible = True` set by a `correlate` (i.e. before `prune()` decides): (class, iterable of the loop it stands in)
    vis_corr = []
    for cname, node in classes.items():
        for m in node.body:
            if isinstance(m, ast.FunctionDef) and m.name == "correlate":
                for loop in ast.walk(m):
                    if isinstance(loop, ast.For):
                        var = ast.unparse(loop.target)
                        if any(ast.unparse(x) == f"{var}.visible = True" for x in loop.body):
                            vis_corr.append((cname, ast.unparse(loop.iter)))
                for x in m.body:
                    if ast.unparse(x).endswith(".visible = True") and not isinstance(x, ast.For):
                        vis_corr.append((cname, ast.unparse(x)))
    fns = {
        "FortranCommon.correlate": _method(classes, "FortranCommon", "correlate"),
        "FortranNamelist.correlate": _method(classes, "FortranNamelist", "correlate"),
        "FortranType.correlate": _method(classes, "FortranType", "correlate"),
    }
    tc = norm_src(fns["FortranType.correlate"])
    # the two tests that decide which members an extending type inherits
    inherit_tests = [x for x in ("var.permission == 'public'", "bp.permission == 'private'") if x in tc]
    return dict(collect=collect, routines=routines_lists, sections=sections, visible_at_init=sorted(set(vis)),
                visible_in_correlate=vis_corr,
                pins={k: pin(v) for k, v in fns.items()}, srcs={k: norm_src(v) for k, v in fns.items()},
                inherit_tests=inherit_tests)


def _defining(classes, mname):
    """names of the classes whose body defines a method / property `mname`"""
    return sorted(c for c, n in classes.items()
                  if any(isinstance(m, (ast.FunctionDef, ast.AsyncFunctionDef)) and m.name == mname for m in n.body))


def extract_links(classes, pclasses):
    """the mechanism that turns a `[[name]]` in a doc comment into a URL: where a name is looked up
    (`FortranBase.children` order, `find_child`, `Project.find` over LINK_TYPES, the three steps of
    `FordLinkProcessor.convert_link`) and which classes override any part of it."""
    ch = _method(classes, "FortranBase", "children")
    child_lists = None
    non_list = None
    for node in ast.walk(ch):
        if isinstance(node, ast.Call) and ast.unparse(node.func) == "self.iterator":
            if child_lists is not None:
                raise ValueError("two self.iterator(...) calls in FortranBase.children")
            if not all(isinstance(a, ast.Constant) and isinstance(a.value, str) for a in node.args) or node.keywords:
                raise ValueError("FortranBase.children: iterator arguments are not string literals")
            child_lists = [a.value for a in node.args]
        if isinstance(node, ast.Assign) and ast.unparse(node.targets[0]) == "non_list_children":
            if not isinstance(node.value, ast.List):
                raise ValueError("non_list_children is not a list literal")
            non_list = [e.value for e in node.value.elts]
    if not child_lists or non_list is None:
        raise ValueError("FortranBase.children: iterator lists / non_list_children not found")
    # the shape of the property around the two tables
    ret = [n for n in ch.body if isinstance(n, ast.Return)]
    if len(ret) != 1 or not (isinstance(ret[0].value, ast.Call) and ast.unparse(ret[0].value.func) == "chain"
                             and len(ret[0].value.args) == 2):
        raise ValueError("FortranBase.children does not return chain(<lists>, <non-list children>)")

    ptree = ast.parse((common.REPO / "ford/fortran_project.py").read_text())
    link_types = None
    for node in ptree.body:
        if isinstance(node, ast.Assign) and ast.unparse(node.targets[0]) == "LINK_TYPES" and isinstance(node.value, ast.Dict):
            link_types = [(k.value, v.value) for k, v in zip(node.value.keys, node.value.values)]
    if not link_types:
        raise ValueError("LINK_TYPES not found in ford/fortran_project.py")
    stree = ast.parse((common.REPO / "ford/sourceform.py").read_text())
    find_in_list = None
    sublink = None
    for node in stree.body:
        if isinstance(node, ast.FunctionDef) and node.name == "_find_in_list":
            find_in_list = node
        if isinstance(node, ast.Assign) and ast.unparse(node.targets[0]) == "SUBLINK_TYPES" and isinstance(node.value, ast.Dict):
            sublink = [(k.value, v.value) for k, v in zip(node.value.keys, node.value.values)]
    if find_in_list is None or sublink is None:
        raise ValueError("_find_in_list / SUBLINK_TYPES not found in ford/sourceform.py")
    _, mclasses = _classes("ford/_markdown.py")
    fns = {
        "find_child": _method(classes, "FortranBase", "find_child"),
        "_find_in_list": find_in_list,
        "Project.find": _method(pclasses, "Project", "find"),
        "convert_link": _method(mclasses, "FordLinkProcessor", "convert_link"),
        "get_url": _method(classes, "FortranBase", "get_url"),
        "get_dir": _method(classes, "FortranBase", "get_dir"),
    }
    # candidate repair fixes/C05-doc-link-hidden-page.diff adds a module-level helper; absent in the code as it is
    mtree = ast.parse((common.REPO / "ford/_markdown.py").read_text())
    written = [n for n in mtree.body if isinstance(n, ast.FunctionDef) and n.name == "_has_written_page"]
    # every class of the three modules that defines part of the lookup
    defining = {}
    for m in ("find_child", "children", "get_url", "get_dir", "find", "convert_link", "iterator"):
        defining[m] = [f"{mod}:{c}" for mod, cl in (("sourceform", classes), ("fortran_project", pclasses), ("_markdown", mclasses))
                       for c in _defining(cl, m)]
    pins = {k: pin(v) for k, v in fns.items()}
    srcs = {k: norm_src(v) for k, v in fns.items()}
    pins["_has_written_page"] = pin(written[0]) if written else ""
    srcs["_has_written_page"] = norm_src(written[0]) if written else "(not defined)"
    return dict(child_lists=child_lists, non_list=non_list, link_types=link_types, sublink=sublink,
                pins=pins, srcs=srcs, defining=defining)


def translate():
    t = extract()
    cu, ty, bd = t["cu"], t["ty"], t["bd"]
    L = ["/- GENERATED by translate/c05.py from ford/sourceform.py, ford/fortran_project.py, ford/output.py - do not edit -/",
         "namespace Ford.Generated.C05", ""]

    def prune_block(prefix, p, doc):
        L.append(f"/-- {doc}: early-return guard (source text) -/")
        L.append(f"def {prefix}Guard : String := {lean_str(p['guard'])}")
        L.append(f"/-- lists set to [] under the guard -/\ndef {prefix}Emptied : List String := {lean_list(p['emptied'])}")
        L.append(f"/-- lists passed through filter_display unconditionally -/\ndef {prefix}Filtered : List String := {lean_list(p['filtered'])}")
        L.append(f"/-- (condition, list) filtered under an `if` -/\ndef {prefix}CondFiltered : List (String × String) := {lean_pairs(p['cond_filtered'])}")
        L.append(f"/-- lists whose members only get `visible = True` -/\ndef {prefix}VisibleOnly : List String := {lean_list(p['visible_only'])}")
        L.append(f"/-- lists whose members get `visible = True` and are pruned recursively -/\ndef {prefix}Recurse : List String := {lean_list(p['recurse'])}")
        L.append(f"/-- statements of the method that fit none of the shapes above -/\ndef {prefix}Other : List String := {lean_list(p['other'])}")
        L.append("")

    prune_block("codeUnit", cu, "FortranCodeUnit.prune")
    prune_block("dtype", ty, "FortranType.prune")
    prune_block("blockData", bd, "FortranBlockData.prune")
    L.append(f"/-- classes that define prune() -/\ndef hasPrune : List String := {lean_list(t['has_prune'])}")
    L.append(f"/-- CONTAINERS of Project.correlate: list of a code unit -> project page list -/\ndef containers : List (String × String) := {lean_pairs(t['containers'])}")
    L.append(f"/-- the lists of a source file whose members are scanned with CONTAINERS -/\ndef codeUnitChain : List String := {lean_list(t['chain'])}")
    L.append(f"/-- body of the `for container in ranklist` loop that prunes -/\ndef pruneLoop : String := {lean_str(t['prune_loop'])}")
    L.append(f"/-- how ranklist is built -/\ndef ranklist : List String := {lean_list(t['ranklist'])}")
    L.append(f"/-- Documentation.__init__: project list -> page class -/\ndef pageMap : List (String × String) := {lean_pairs(t['page_map'])}")
    L.append("/-- conditional additions to the page map: (condition, list, page class) -/\ndef pageMapExtra : List (String × String × String) := ["
             + ", ".join(f"({lean_str(a)}, {lean_str(b)}, {lean_str(c)})" for a, b, c in t["page_map_extra"]) + "]")
    L.append("")
    for k, v in t["pins"].items():
        nm = {"_set_display": "setDisplay", "_should_display": "shouldDisplay", "filter_display": "filterDisplay", "__str__": "str"}[k]
        L.append("/- " + k + ":\n" + t["srcs"][k].replace("-/", "- /") + "\n-/")
        L.append(f"/-- sha256[:16] of the normalised source (ast.unparse, docstring removed) of FortranBase.{k} -/")
        L.append(f"def {nm}Pin : String := {lean_str(v)}")
    lk = t["links"]
    L.append("")
    L.append("/-! ### `[[name]]` links in doc comments -/")
    L.append(f"/-- FortranBase.children: the list attributes searched by `find_child`, in iteration order -/\ndef childrenLists : List String := {lean_list(lk['child_lists'])}")
    L.append(f"/-- FortranBase.children: single-object attributes searched after the lists -/\ndef nonListChildren : List String := {lean_list(lk['non_list'])}")
    L.append(f"/-- LINK_TYPES of ford/fortran_project.py: entity word -> project list searched by `Project.find` -/\ndef linkTypes : List (String × String) := {lean_pairs(lk['link_types'])}")
    L.append(f"/-- SUBLINK_TYPES of ford/sourceform.py: entity word -> child list -/\ndef sublinkTypes : List (String × String) := {lean_pairs(lk['sublink'])}")
    for m, cs in lk["defining"].items():
        nm = {"find_child": "findChildDefinedIn", "children": "childrenDefinedIn", "get_url": "getUrlDefinedIn",
              "get_dir": "getDirDefinedIn", "find": "findDefinedIn", "convert_link": "convertLinkDefinedIn",
              "iterator": "iteratorDefinedIn"}[m]
        L.append(f"/-- classes (module:class) that define `{m}` -/\ndef {nm} : List String := {lean_list(cs)}")
    for k, v in lk["pins"].items():
        nm = {"find_child": "findChild", "_find_in_list": "findInList", "Project.find": "projectFind",
              "convert_link": "convertLink", "get_url": "getUrl", "get_dir": "getDir",
              "_has_written_page": "hasWrittenPage"}[k]
        L.append("/- " + k + ":\n" + lk["srcs"][k].replace("-/", "- /").replace("/-", "/ -") + "\n-/")
        L.append(f"/-- sha256[:16] of the normalised source (ast.unparse, docstring removed) of {k}"
                 + (" (empty: the function does not exist)" if k == "_has_written_page" else "") + " -/")
        L.append(f"def {nm}Pin : String := {lean_str(v)}")
    mo = t["more"]
    L.append("")
    L.append("/-! ### entity kinds no `prune()` knows; entities moved between lists by `correlate` -/")
    L.append("/-- Project._fortran_file: (list of the new file, namelists of its members collected, namelists of the members' `routines` collected) -/")
    L.append("def namelistCollect : List (String × Bool × Bool) := ["
             + ", ".join(f"({lean_str(a)}, {'true' if b else 'false'}, {'true' if c else 'false'})" for a, b, c in mo["collect"]) + "]")
    L.append(f"/-- FortranBase.routines: the lists it iterates -/\ndef routinesLists : List String := {lean_list(mo['routines'])}")
    L.append(f"/-- page templates that render `<entity>.namelists` with `namelist_panel` -/\ndef namelistSections : List String := {lean_list(mo['sections'])}")
    L.append(f"/-- classes whose constructor sets `visible = True` -/\ndef visibleAtInit : List String := {lean_list(mo['visible_at_init'])}")
    L.append(f"/-- `visible = True` set inside a `correlate` method (before `prune()`): (class, loop iterable) -/\ndef visibleInCorrelate : List (String × String) := {lean_pairs(mo['visible_in_correlate'])}")
    L.append(f"/-- the permission tests of FortranType.correlate that decide which members are inherited -/\ndef inheritTests : List String := {lean_list(mo['inherit_tests'])}")
    for k, v in mo["pins"].items():
        nm = {"FortranCommon.correlate": "commonCorrelate", "FortranNamelist.correlate": "namelistCorrelate",
              "FortranType.correlate": "typeCorrelate"}[k]
        L.append("/- " + k + ":\n" + mo["srcs"][k].replace("-/", "- /").replace("/-", "/ -") + "\n-/")
        L.append(f"/-- sha256[:16] of the normalised source (ast.unparse, docstring removed) of {k} -/")
        L.append(f"def {nm}Pin : String := {lean_str(v)}")
    L += ["", "end Ford.Generated.C05", ""]
    common.write_if_changed(common.LEAN / "FordModel" / "Generated" / "C05.lean", "\n".join(L))
    return t


if __name__ == "__main__":
    import json
    print(json.dumps(translate(), indent=1, default=str))
