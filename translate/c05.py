"""G8/G9 for C05.  Since round 5 the tables follow what the code DOES, not how it is spelled:

* what each `prune()` empties / filters / marks visible / recurses into, `_set_display`, `_should_display` /
  `filter_display`, `FortranBase.__str__`, the attributes `children` / `routines` consult, `_find_in_list`,
  `get_dir` / `get_url`, `find_child`, `Project.find`, `convert_link`, the prune loop / CONTAINERS / chain of `Project.correlate`, the namelists `_fortran_file`
  collects, what an extending type inherits, where common-block members go: **probed** by running the real
  functions on the objects of a small probe project (`translate/c05_probe.py`);
* `LINK_TYPES` / `SUBLINK_TYPES`: the values the imported modules are bound to;
* the (entity list -> page class) map of `Documentation.__init__` (ford/output.py): ast, any binding name;
* page templates with a namelist section: Jinja2's parser;
* which classes define part of the lookup / of the display test: ast / the classes' own `__dict__` (`*DefinedIn`);
* the link lookup (`find_child`, `Project.find`, `FordLinkProcessor.convert_link`): probed on recording stubs - which
  lists are searched in which order, which lookups `convert_link` makes in which order and what it renders.
No hash of any source text is left: every table is an observation of what the code does.
Written to lean/FordModel/Generated/C05.lean on every run.

A construct that cannot be found raises (tie broken, never a pass)."""
import ast

from harness import common
from translate import c05_probe as P


def _classes(path):
    tree = ast.parse((common.REPO / path).read_text())
    return tree, {n.name: n for n in tree.body if isinstance(n, ast.ClassDef)}


def _method(classes, cname, mname):
    cls = classes[cname]
    for n in cls.body:
        if isinstance(n, ast.FunctionDef) and n.name == mname:
            return n
    raise ValueError(f"{cname}.{mname} not found")


# --------------------------------------------------------------------------- Lean literals

def lean_str(s):
    return '"' + s.replace("\\", "\\\\").replace('"', '\\"').replace("\n", "\\n") + '"'


def lean_list(xs):
    return "[" + ", ".join(lean_str(x) for x in xs) + "]"


def lean_pairs(xs):
    return "[" + ", ".join(f"({lean_str(a)}, {lean_str(b)})" for a, b in xs) + "]"


def lean_bool(b):
    return "true" if b else "false"


def lean_nats(xs):
    return "[" + ", ".join(str(int(x)) for x in xs) + "]"


# --------------------------------------------------------------------------- extraction

def _row(rows, cname, pint):
    for r in rows:
        if r[0] == cname and r[1] == pint:
            return r
    raise ValueError(f"prune probe: no row for {cname} / proc_internals={pint}")


def prune_tables(rows):
    """the per-`prune()` tables the model interprets, read off the probe rows (theorem `prune_probe_matches_model`
    shows that every row - every class, both settings of proc_internals - is what the model makes of them)"""
    cu_on = _row(rows, "FortranModule", True)
    sub = _row(rows, "FortranSubmodule", True)
    off = _row(rows, "FortranSubroutine", False)
    ty = _row(rows, "FortranType", True)
    bd = _row(rows, "FortranBlockData", True)

    def tab(r, emptied=None):
        return {"emptied": list(emptied if emptied is not None else r[2]), "filtered": list(r[3]),
                "visible_only": list(r[4]), "recurse": list(r[5]), "cond_filtered": []}

    cu = tab(cu_on, emptied=off[2])
    cu["cond_filtered"] = [("FortranSubmodule", l) for l in sub[3] if l not in cu_on[3]]
    return cu, tab(ty), tab(bd)


def extract():
    _, classes = _classes("ford/sourceform.py")
    _, pclasses = _classes("ford/fortran_project.py")
    cx = P.Ctx()
    try:
        rows, universe, prune_classes = P.prune_probe(cx)
        cu, ty, bd = prune_tables(rows)
        if not cu["filtered"] or not ty["filtered"] or not bd["filtered"]:
            raise ValueError("a prune() filters nothing")
        has_prune = sorted({d for _, d in prune_classes})
        probes = dict(
            prune_rows=rows, universe=universe, prune_classes=prune_classes,
            set_display=P.set_display_probe(cx), should_display=P.should_display_probe(cx), str=P.str_probe(cx),
            children=P.children_probe(cx), find_in_list=P.find_in_list_probe(cx), url=P.url_probe(cx),
            project=P.project_probe(cx), bound_decl=P.bound_decl_probe(cx), graph_node=P.graph_node_probe(cx))
        ch = probes["children"]
        probes["find_child"] = P.find_child_probe(cx, ch[0], ch[1])
        probes["project_find"] = P.project_find_probe(cx)
        probes["convert_link"] = P.convert_link_probe(cx)
        probes["anomalies"] = list(dict.fromkeys(cx.anomalies))
    finally:
        cx.close()

    # output: the list of (project.<list>, <Page class>) pairs and its conditional additions, whatever it is called
    otree, oclasses = _classes("ford/output.py")
    init = _method(oclasses, "Documentation", "__init__")

    def pair(e):
        if (isinstance(e, ast.Tuple) and len(e.elts) == 2 and isinstance(e.elts[0], ast.Attribute)
                and isinstance(e.elts[0].value, ast.Name) and isinstance(e.elts[1], ast.Name)):
            return (e.elts[0].attr, e.elts[1].id)
        return None

    page_map = None
    map_name = None
    for node in ast.walk(init):
        if isinstance(node, (ast.Assign, ast.AnnAssign)) and isinstance(node.value, ast.List) and node.value.elts \
                and all(pair(e) for e in node.value.elts):
            if page_map is not None:
                raise ValueError("two page maps in Documentation.__init__")
            page_map = [pair(e) for e in node.value.elts]
            tgt = node.target if isinstance(node, ast.AnnAssign) else node.targets[0]
            map_name = ast.unparse(tgt)
    if not page_map:
        raise ValueError("the (entity list, page class) map was not found in Documentation.__init__")
    extra = []
    for node in ast.walk(init):
        if isinstance(node, ast.If):
            for st in node.body:
                if (isinstance(st, ast.Expr) and isinstance(st.value, ast.Call) and ast.unparse(st.value.func) == f"{map_name}.append"
                        and len(st.value.args) == 1 and pair(st.value.args[0])):
                    extra.append((ast.unparse(node.test),) + pair(st.value.args[0]))
    links = extract_links(classes, pclasses)
    more = extract_round3(classes)
    return dict(more=more, cu=cu, ty=ty, bd=bd, has_prune=has_prune, page_map=page_map, page_map_extra=extra,
                links=links, probes=probes,
                display_defining={m: _entity_classes_defining(m) for m in ("_set_display", "_should_display", "filter_display", "__str__")})


def extract_round3(classes):
    """page templates with a namelist section (Jinja2's parser: a `for` over `<x>.namelists` whose body calls
    `namelist_panel`), and that `routines` is not overridden"""
    import jinja2
    from jinja2 import nodes

    if _defining(classes, "routines") != ["FortranBase"]:
        raise ValueError("`routines` is overridden: " + str(_defining(classes, "routines")))
    env = jinja2.Environment()
    sections = []
    for t in sorted((common.REPO / "ford/templates").glob("*_page.html")):
        tree = env.parse(t.read_text())
        for loop in tree.find_all(nodes.For):
            it = loop.iter
            if isinstance(it, nodes.Getattr) and it.attr == "namelists":
                calls = [c for b in loop.body for c in b.find_all(nodes.Call)]
                if any((isinstance(c.node, nodes.Getattr) and c.node.attr == "namelist_panel")
                       or (isinstance(c.node, nodes.Name) and c.node.name == "namelist_panel") for c in calls):
                    sections.append(t.name)
                    break
    if not sections:
        raise ValueError("no page template renders namelists")
    return dict(sections=sections)


def _entity_classes_defining(mname):
    """names of the entity classes (subclasses of FortranBase in ford/sourceform.py) whose own body defines `mname`"""
    common.import_ford()
    import ford.sourceform as sf

    return sorted(n for n, c in vars(sf).items() if isinstance(c, type) and issubclass(c, sf.FortranBase)
                  and c.__module__ == sf.__name__ and mname in vars(c))


def _defining(classes, mname):
    """names of the classes whose body defines a method / property `mname`"""
    return sorted(c for c, n in classes.items()
                  if any(isinstance(m, (ast.FunctionDef, ast.AsyncFunctionDef)) and m.name == mname for m in n.body))


def extract_links(classes, pclasses):
    """the mechanism that turns a `[[name]]` in a doc comment into a URL: `LINK_TYPES` / `SUBLINK_TYPES` as the
    modules bind them, which classes override any part of the lookup, pins (alpha-renamed) of the three functions
    the link model mirrors statement by statement"""
    common.import_ford()
    import ford.fortran_project as fp
    import ford.sourceform as sf

    def table(mod, name):
        v = getattr(mod, name, None)
        if not isinstance(v, dict) or not v or not all(isinstance(k, str) and isinstance(x, str) for k, x in v.items()):
            raise ValueError(f"{name} not found in {mod.__name__} (a dict of strings)")
        return list(v.items())

    link_types = table(fp, "LINK_TYPES")
    sublink = table(sf, "SUBLINK_TYPES")
    _, mclasses = _classes("ford/_markdown.py")
    # every class of the three modules that defines part of the lookup
    defining = {}
    for m in ("find_child", "children", "get_url", "get_dir", "find", "convert_link", "iterator"):
        defining[m] = [f"{mod}:{c}" for mod, cl in (("sourceform", classes), ("fortran_project", pclasses), ("_markdown", mclasses))
                       for c in _defining(cl, m)]
    return dict(link_types=link_types, sublink=sublink, defining=defining)


def translate():
    t = extract()
    cu, ty, bd = t["cu"], t["ty"], t["bd"]
    pr = t["probes"]
    pj = pr["project"]
    L = ["/- GENERATED by translate/c05.py (probes of the real functions: translate/c05_probe.py) from ford/sourceform.py, "
         "ford/fortran_project.py, ford/output.py, ford/_markdown.py, ford/templates - do not edit -/",
         "namespace Ford.Generated.C05", ""]

    L.append("/-- what the probes could not make sense of (pinned to `[]`) -/")
    L.append(f"def probeAnomalies : List String := {lean_list(pr['anomalies'])}")
    L.append("/-- every attribute that holds a list of entities in some object of the probe project: the lists each probed "
             "`prune()` was given three sentinel members in (one to keep, one private, one undocumented) -/")
    L.append(f"def probeLists : List String := {lean_list(pr['universe'])}")
    L.append("/-- `prune()` run on a real object of each concrete class, `display = [public]`, `hide_undoc` on: "
             "(class, proc_internals, lists emptied, lists filtered, lists whose kept member was only marked visible, "
             "lists whose kept member was marked visible and pruned) -/")
    L.append("def pruneProbe : List (String × Bool × List String × List String × List String × List String) := [")
    L.append(",\n".join(f"  ({lean_str(c)}, {lean_bool(p)}, {lean_list(e)}, {lean_list(f)}, {lean_list(v)}, {lean_list(r)})"
                        for c, p, e, f, v, r in pr["prune_rows"]) + "]")
    L.append(f"/-- classes of ford/sourceform.py (stand-ins for external projects excluded) with a `prune` attribute and the class of the MRO that defines it -/\ndef pruneClasses : List (String × String) := {lean_pairs(pr['prune_classes'])}")
    L.append("")

    def prune_block(prefix, p, doc):
        L.append(f"/-- {doc}: lists set to [] under the guard (probe row of a procedure with proc_internals off) -/\ndef {prefix}Emptied : List String := {lean_list(p['emptied'])}")
        L.append(f"/-- lists passed through filter_display unconditionally -/\ndef {prefix}Filtered : List String := {lean_list(p['filtered'])}")
        L.append(f"/-- (class, list) filtered only for that class -/\ndef {prefix}CondFiltered : List (String × String) := {lean_pairs(p['cond_filtered'])}")
        L.append(f"/-- lists whose members only get `visible = True` -/\ndef {prefix}VisibleOnly : List String := {lean_list(p['visible_only'])}")
        L.append(f"/-- lists whose members get `visible = True` and are pruned recursively -/\ndef {prefix}Recurse : List String := {lean_list(p['recurse'])}")
        L.append("")

    prune_block("codeUnit", cu, "FortranCodeUnit.prune")
    prune_block("dtype", ty, "FortranType.prune")
    prune_block("blockData", bd, "FortranBlockData.prune")
    L.append(f"/-- classes that define prune() -/\ndef hasPrune : List String := {lean_list(t['has_prune'])}")
    for m, cs in t["display_defining"].items():
        nm = {"_set_display": "setDisplayDefinedIn", "_should_display": "shouldDisplayDefinedIn",
              "filter_display": "filterDisplayDefinedIn", "__str__": "strDefinedIn"}[m]
        L.append(f"/-- entity classes of ford/sourceform.py (subclasses of FortranBase) that define `{m}` -/\ndef {nm} : List String := {lean_list(cs)}")
    L.append(f"/-- observed: (child list of a code unit, project page list its members are copied into by `Project.correlate`) -/\ndef containers : List (String × String) := {lean_pairs(pj['containers'])}")
    L.append(f"/-- observed: the lists of a source file whose members' child lists are copied -/\ndef codeUnitChain : List String := {lean_list(pj['chain'])}")
    L.append("/-- the observations the two tables above factorise: (file list, child list, project list) -/\ndef containerTriples : List (String × String × String) := ["
             + ", ".join(f"({lean_str(a)}, {lean_str(b)}, {lean_str(c)})" for a, b, c in pj["container_triples"]) + "]")
    L.append(f"/-- observed with every `prune` replaced by a recorder: (file list, how often `Project.correlate` prunes each member) -/\ndef pruneLoopProbe : List (String × String) := {lean_pairs(pj['prune_loop'])}")
    L.append(f"/-- observed: every `correlate` of every entity has run before the first `prune` -/\ndef pruneAfterCorrelate : Bool := {lean_bool(pj['prune_after_correlate'])}")
    L.append(f"/-- Documentation.__init__: project list -> page class -/\ndef pageMap : List (String × String) := {lean_pairs(t['page_map'])}")
    L.append("/-- conditional additions to the page map: (condition, list, page class) -/\ndef pageMapExtra : List (String × String × String) := ["
             + ", ".join(f"({lean_str(a)}, {lean_str(b)}, {lean_str(c)})" for a, b, c in t["page_map_extra"]) + "]")
    L.append("")
    L.append("/-- `_set_display` run on a real entity / a real source file; words coded 0 public, 1 protected, 2 private, 3 none, "
             "4 anything else: (is a file, inherited list, lower-cased `meta.display`, resulting `display`, the result is the "
             "inherited list object itself) -/")
    L.append("def setDisplayProbe : List (Bool × List Nat × List Nat × List Nat × Bool) := [")
    L.append(",\n".join(f"  ({lean_bool(f)}, {lean_nats(p)}, {lean_nats(m)}, {lean_nats(r)}, {lean_bool(a)})"
                        for f, p, m, r, a in pr["set_display"][0]) + "]")
    L.append("/-- the (class of the probe project, `meta.proc_internals`) subjects `setDisplayProbe` was measured on; the "
             "table is the set of all their outcomes -/")
    L.append("def setDisplaySubjects : List (String × Bool) := ["
             + ", ".join(f"({lean_str(c)}, {lean_bool(b)})" for c, b in pr["set_display"][1]) + "]")
    L.append("/-- the macros `type_summary` (site `summary`) / `bound_info` (site `info`) rendered by FORD's Jinja2 environment on "
             "the real types of the probe project: (site, the binding is inherited, `tb.visible`, `visible` of the declaring "
             "type, `external_url` set, the name of the binding was rendered as name | link:declaring-type-page | "
             "link:carrier-page | link:external | link:other) -/")
    L.append("def boundDeclProbe : List (String × Bool × Bool × Bool × Bool × String) := [")
    L.append(",\n".join(f"  ({lean_str(a)}, {lean_bool(b)}, {lean_bool(c)}, {lean_bool(d)}, {lean_bool(e)}, {lean_str(o)})"
                        for a, b, c, d, e, o in pr["bound_decl"]) + "]")
    L.append("/-- `ford.graphs.BaseNode.__init__` on copies of real objects of the probe project: (class, is a type-bound procedure, "
             "has a URL, `visible` true | false | absent, the parent's `visible`, the node carries a `URL` attribute, that attribute is "
             "parent_dir + the entity's URL or both are absent) -/")
    L.append("def graphNodeProbe : List (String × Bool × Bool × String × String × Bool × Bool) := [")
    L.append(",\n".join(f"  ({lean_str(c)}, {lean_bool(i)}, {lean_bool(u)}, {lean_str(v)}, {lean_str(pv)}, {lean_bool(g)}, {lean_bool(ok)})"
                        for c, i, u, v, pv, g, ok in pr["graph_node"]) + "]")
    L.append("/-- `_should_display` / `filter_display` truth table per distinct implementation among the classes of the probe "
             "project: (classes, rows (hide_undoc, documented, permission code, display codes, kept)) -/")
    L.append("def shouldDisplayProbe : List (List String × List (Bool × Bool × Nat × List Nat × Bool)) := [")
    L.append(",\n".join("  (" + lean_list(cs) + ", [" + ", ".join(
        f"({lean_bool(h)}, {lean_bool(d)}, {pm}, {lean_nats(ds)}, {lean_bool(k)})" for h, d, pm, ds, k in rows) + "])"
        for cs, rows in pr["should_display"]) + "]")
    L.append("/-- `str(entity)`: (has a URL, `visible` true / false / absent, has a name, link | link-unnamed | name | empty) -/")
    L.append("def strProbe : List (Bool × String × Bool × String) := ["
             + ", ".join(f"({lean_bool(u)}, {lean_str(v)}, {lean_bool(n)}, {lean_str(o)})" for u, v, n, o in pr["str"]) + "]")
    lk = t["links"]
    ch_lists, ch_single, routines = pr["children"]
    L.append("")
    L.append("/-! ### `[[name]]` links in doc comments -/")
    L.append(f"/-- FortranBase.children (probed): the list attributes searched by `find_child`, in iteration order -/\ndef childrenLists : List String := {lean_list(ch_lists)}")
    L.append(f"/-- FortranBase.children (probed): single-object attributes searched after the lists -/\ndef nonListChildren : List String := {lean_list(ch_single)}")
    L.append(f"/-- LINK_TYPES of ford/fortran_project.py: entity word -> project list searched by `Project.find` -/\ndef linkTypes : List (String × String) := {lean_pairs(lk['link_types'])}")
    L.append(f"/-- SUBLINK_TYPES of ford/sourceform.py: entity word -> child list -/\ndef sublinkTypes : List (String × String) := {lean_pairs(lk['sublink'])}")
    for m, cs in lk["defining"].items():
        nm = {"find_child": "findChildDefinedIn", "children": "childrenDefinedIn", "get_url": "getUrlDefinedIn",
              "get_dir": "getDirDefinedIn", "find": "findDefinedIn", "convert_link": "convertLinkDefinedIn",
              "iterator": "iteratorDefinedIn"}[m]
        L.append(f"/-- classes (module:class) that define `{m}` -/\ndef {nm} : List String := {lean_list(cs)}")
    L.append("/-- `_find_in_list` (probed): (case, 1 + index of the member returned; 0 = None) -/")
    L.append("def findInListProbe : List (String × Nat) := ["
             + ", ".join(f"({lean_str(c)}, {i + 1})" for c, i in pr["find_in_list"]) + "]")
    L.append("/-- `get_dir` / `get_url` (probed on the objects of the probe project): (class, class of the parent, get_dir or -, "
             "page | anchor:<class of the entity whose page carries the anchor> | none) -/")
    L.append("def urlProbe : List (String × String × String × String) := [")
    L.append(",\n".join(f"  ({lean_str(a)}, {lean_str(b)}, {lean_str(c)}, {lean_str(d)})" for a, b, c, d in pr["url"]) + "]")
    def triples(name, doc, rows):
        L.append(f"/-- {doc} -/")
        L.append(f"def {name} : List (String × String × String × String) := [")
        L.append(",\n".join(f"  ({lean_str(a)}, {lean_str(b_)}, {lean_str(c)}, {lean_str(d)})" for a, b_, c, d in rows) + "]")

    triples("findChildProbe", "`FortranBase.find_child` (probed on stubs): (kind of case, list or entity word, list the word names, found | None | ValueError)",
            pr["find_child"])
    triples("projectFindProbe", "`Project.find` (probed on a stub project): (kind of case, list or entity word, list the word names, outcome)",
            pr["project_find"])
    L.append("/-- `FordLinkProcessor.convert_link` run through a real `MetaMarkdown` on scripted contexts / project: "
             "(case, the lookups it made in order => what it rendered) -/")
    L.append("def convertLinkProbe : List (String × String) := [")
    L.append(",\n".join(f"  ({lean_str(a)}, {lean_str(b_)})" for a, b_ in pr["convert_link"]) + "]")
    mo = t["more"]
    L.append("")
    L.append("/-! ### entity kinds no `prune()` knows; entities moved between lists by `correlate` -/")
    L.append("/-- observed on `Project(...)` of the probe project: (list of the new file, namelists of its members collected, namelists of the members' `routines` collected) -/")
    L.append("def namelistCollect : List (String × Bool × Bool) := ["
             + ", ".join(f"({lean_str(a)}, {lean_bool(b)}, {lean_bool(c)})" for a, b, c in pj["collect"]) + "]")
    L.append(f"/-- FortranBase.routines (probed): the lists it iterates -/\ndef routinesLists : List String := {lean_list(routines)}")
    L.append(f"/-- page templates with a `for` over `<entity>.namelists` that calls `namelist_panel` -/\ndef namelistSections : List String := {lean_list(mo['sections'])}")
    L.append(f"/-- classes all of whose objects are `visible` when `Project(...)` has read the files -/\ndef visibleAtInit : List String := {lean_list(pj['visible_at_init'])}")
    L.append(f"/-- observed with every `prune` replaced by a recorder: (class of the parent, class) of what `correlate()` alone makes visible -/\ndef visibleInCorrelate : List (String × String) := {lean_pairs(pj['visible_in_correlate'])}")
    L.append("/-- observed after `correlate()` with nothing pruned: (member kind, permission code, carried by a type that extends its type) -/")
    L.append("def inheritProbe : List (String × Nat × Bool) := ["
             + ", ".join(f"({lean_str(a)}, {b}, {lean_bool(c)})" for a, b, c in pj["inherit"]) + "]")
    L.append(f"/-- observed: the extending type keeps its own members after the inherited ones, an overriding binding once, no final procedure inherited -/\ndef inheritOwnLast : Bool := {lean_bool(pj['inherit_own_last_and_overriding'] and not pj['inherit_finalprocs'])}")
    L.append(f"/-- observed: the members of a common block are variable objects taken out of the parent's `variables` -/\ndef commonMovesMembers : Bool := {lean_bool(pj['common_moves_members'])}")
    L.append(f"/-- observed: a namelist's variables are the objects of the scope (locals, dummy arguments, host variables) -/\ndef namelistResolves : Bool := {lean_bool(pj['namelist_resolves'])}")
    L += ["", "end Ford.Generated.C05", ""]
    common.write_if_changed(common.LEAN / "FordModel" / "Generated" / "C05.lean", "\n".join(L))
    return t


if __name__ == "__main__":
    import json
    print(json.dumps(translate(), indent=1, default=str))
