"""C20, round 6 - tables about *when* and *where* a defect of a source file comes to light, and about what a
rejected file leaves behind outside the project object.  All of them are observed on the code under test.

  enumProbes     the real `FortranEnum._cleanup` on fixed lists of enumerators (inside a module of a real source
                 file): `none` = the file's constructor raised (inside the per-file handler); `some vs` = it
                 returned, vs = the values it worked out for the enumerators that have no `= value` (they show
                 what was made of their predecessors).
  enumLateRaise  the probes on which the constructor returned but `Project.correlate()` raised afterwards
                 (a stage no handler surrounds): must be empty.
  leftBehind     class- and module-level objects of ford.reader / ford.sourceform / ford.fortran_project /
                 ford.utils (everything that is not a function, class, module or compiled pattern) whose value
                 after `Project()` over two valid files *and* a set of rejected files differs from their value
                 after `Project()` over the two valid files alone.  The rejected files fail in every way the
                 generators know: truncated, stray END, reader error, reader error / recursion / missing file /
                 undecodable bytes inside an INCLUDE, non-integer enumerator.
"""
from __future__ import annotations

import contextlib
import io
import re
import shutil
import tempfile
import types
from pathlib import Path

from harness import common

ENUM_PROBES = [
    [("a", None), ("b", None)],
    [("a", "1"), ("b", None), ("c", "5"), ("d", None)],
    [("a", "2_int8"), ("b", None)],
    [("a", "-4"), ("b", None), ("c", None)],
    [("a", "+5"), ("b", None)],
    [("a", "1_000"), ("b", None)],
    [("a", "10_8"), ("b", None)],
    [("a", "-2_int8"), ("b", None)],
    [("a", "007"), ("b", None)],
    [("a", "1.5"), ("b", None)],
    [("a", "3_c_int"), ("b", None)],
    [("a", "offset"), ("b", None)],
    [("a", "1O"), ("b", None)],
    [("a", "2+1"), ("b", None)],
    [("a", "1_"), ("b", None)],
    [("a", "_1"), ("b", None)],
    [("a", "1__0_k"), ("b", None)],
    [("a", "1e3"), ("b", None)],
    [("a", "0x10"), ("b", None)],
    [("a", "1"), ("b", "x"), ("c", None)],
    [("a", None), ("b", None), ("c", "b"), ("d", None)],
    [("a", "4"), ("b", None), ("c", "4.0_dp"), ("d", None)],
]


def enum_source(enumerators, one_line=False, module="enum_probe_m") -> str:
    body = []
    if one_line:
        body.append("    enumerator :: " + ", ".join(n if i is None else f"{n} = {i}" for n, i in enumerators))
    else:
        for n, i in enumerators:
            body.append(f"    enumerator :: {n}" + ("" if i is None else f" = {i}"))
    return "\n".join([f"module {module}", "  enum, bind(c)"] + body + ["  end enum", f"end module {module}", ""])


def observe_enum(enumerators, one_line=False):
    """-> (stage, values): stage = 'parse' (the constructor raised), 'later' (correlate raised), 'never';
    values = the ints recorded for the enumerators without `= value` when the constructor returned."""
    common.import_ford()
    import ford.fortran_project as fp
    import ford.sourceform as sf
    from ford.settings import ProjectSettings

    d = Path(tempfile.mkdtemp(prefix="c20enum"))
    try:
        (d / "enum_probe.f90").write_text(enum_source(enumerators, one_line))
        sf.namelist = sf.NameSelector()
        buf = io.StringIO()
        with contextlib.redirect_stdout(buf), contextlib.redirect_stderr(buf):
            settings = ProjectSettings(src_dir=[d], preprocess=False)
            try:
                src = sf.FortranSourceFile(str(d / "enum_probe.f90"), settings)
            except Exception:  # noqa - the per-file handler catches every Exception
                return "parse", None
            enums = [e for m in src.modules for e in m.enums]
            if len(enums) != 1 or len(enums[0].variables) != len(enumerators):
                raise ValueError(f"enum probe: the ENUM block of the probe was not parsed as one enum with {len(enumerators)} enumerators")
            vals = [v.initial for v, (_, i) in zip(enums[0].variables, enumerators) if i is None and isinstance(v.initial, int)]
            stage = "never"
            try:
                proj = fp.Project(settings)
                if [f.name for f in proj.files] == ["enum_probe.f90"]:
                    proj.correlate()
            except Exception:  # noqa
                stage = "later"
            return stage, vals
    finally:
        shutil.rmtree(d, ignore_errors=True)


_ENUM_DIR = []


def observe_enum_parse(enumerators, one_line=False):
    """the constructor alone (harness stream `enumerators`): ("raised", None) | ("values", ints recorded for the
    enumerators without `= value`)"""
    common.import_ford()
    import ford.sourceform as sf
    from ford.settings import ProjectSettings

    if not _ENUM_DIR:
        import atexit
        _ENUM_DIR.append(Path(tempfile.mkdtemp(prefix="c20enum")))
        atexit.register(shutil.rmtree, _ENUM_DIR[0], ignore_errors=True)
    p = _ENUM_DIR[0] / "enum_probe.f90"
    p.write_text(enum_source(enumerators, one_line))
    buf = io.StringIO()
    with contextlib.redirect_stdout(buf), contextlib.redirect_stderr(buf):
        try:
            src = sf.FortranSourceFile(str(p), ProjectSettings(src_dir=[_ENUM_DIR[0]], preprocess=False))
        except Exception:  # noqa
            return ("raised", None)
    enums = [e for m in src.modules for e in m.enums]
    if len(enums) != 1 or len(enums[0].variables) != len(enumerators):
        return ("not-parsed-as-one-enum", [len(e.variables) for e in enums])
    return ("values", [v.initial for v, (_, i) in zip(enums[0].variables, enumerators) if i is None and isinstance(v.initial, int)])


# ---------------------------------------------------------------------------------------------------------
SKIP_TYPES = (types.FunctionType, types.BuiltinFunctionType, types.ModuleType, type, re.Pattern, property,
              classmethod, staticmethod, types.MethodType)


def _digest(v, depth=0):
    if isinstance(v, (int, float, str, bytes, bool, type(None))):
        return repr(v)
    if isinstance(v, (list, tuple)):
        return type(v).__name__ + "[" + ",".join(_digest(x, depth + 1) for x in v) + "]" if depth < 3 else f"{type(v).__name__}#{len(v)}"
    if isinstance(v, (set, frozenset)):
        return "set{" + ",".join(sorted(_digest(x, depth + 1) for x in v)) + "}" if depth < 3 else f"set#{len(v)}"
    if isinstance(v, dict):
        return "dict{" + ",".join(sorted(f"{_digest(k, depth + 1)}:{_digest(x, depth + 1)}" for k, x in v.items())) + "}" if depth < 3 else f"dict#{len(v)}"
    if isinstance(v, re.Pattern):
        return "re:" + v.pattern
    if isinstance(v, SKIP_TYPES):
        return "<code>"
    dct = getattr(v, "__dict__", None)
    if isinstance(dct, dict) and depth < 2:
        return type(v).__name__ + "(" + ",".join(f"{k}={_digest(x, depth + 1)}" for k, x in sorted(dct.items())) + ")"
    return "<" + type(v).__name__ + ">"


def process_state() -> dict[str, str]:
    """name -> digest of every class- and module-level object of FORD's reading / parsing modules that is data"""
    common.import_ford()
    import ford.fortran_project as fp
    import ford.reader as rd
    import ford.sourceform as sf
    import ford.utils as ut

    out = {}
    for mod in (rd, sf, fp, ut):
        short = mod.__name__.split(".")[-1]
        for name, val in list(vars(mod).items()):
            if name.startswith("__"):
                continue
            if isinstance(val, type):
                if getattr(val, "__module__", None) != mod.__name__:
                    continue
                for an, av in list(vars(val).items()):
                    if an.startswith("__") or isinstance(av, SKIP_TYPES) or callable(av):
                        continue
                    out[f"{short}.{name}.{an}"] = _digest(av)
            elif isinstance(val, SKIP_TYPES) or callable(val):
                continue
            else:
                out[f"{short}.{name}"] = _digest(val)
    return out


VALID = {
    "v1_grid.f90": "module lb_grid\n  include 'lb_consts.inc'\n  real :: spacing(nmax)\ncontains\n  subroutine lb_init(n)\n"
                   "    integer :: n\n  end subroutine lb_init\nend module lb_grid\n",
    "v2_solver.f90": "module lb_solver\n  use lb_grid\ncontains\n  function lb_solve(tol) result(it)\n    include 'lb_consts.inc'\n"
                     "    real :: tol\n    integer :: it\n    call lb_init(it)\n  end function lb_solve\nend module lb_solver\n",
    "lb_consts.inc": "integer, parameter :: nmax = 10\ninteger, parameter :: nmin = 2\n",
}
REJECTED = {
    "a1_truncated.f90": "module lb_t\n  integer :: x\ncontains\n  subroutine lb_ts()\n",
    "a2_stray_end.f90": "end subroutine lb_nowhere\nmodule lb_u\nend module lb_u\n",
    "a3_reader.f90": "module lb_r\n  & x = 1\nend module lb_r\n",
    "a4_inc_reader.f90": "module lb_ir\n  include 'lb_bad_reader.inc'\nend module lb_ir\n",
    "lb_bad_reader.inc": "integer :: ok_before\ninteger :: y !> doc beside code\n",
    "a5_inc_cycle.f90": "module lb_ic\n  include 'lb_cycle.inc'\nend module lb_ic\n",
    "lb_cycle.inc": "integer :: again\ninclude 'lb_cycle.inc'\n",
    "a6_inc_missing.f90": "module lb_im\n  include 'lb_via.inc'\nend module lb_im\n",
    "lb_via.inc": "integer :: via\ninclude 'lb_not_there.inc'\n",
    "a7_inc_undecodable.f90": "module lb_iu\n  include 'lb_bytes.inc'\nend module lb_iu\n",
    "lb_bytes.inc": b"integer :: caf\xe9 \xff\xfe\n",
    "a8_enum.f90": "module lb_e\n  enum, bind(c)\n    enumerator :: lo = 1.5\n  end enum\nend module lb_e\n",
    "m1_reader_again.f90": "module lb_r2\n  x = 2 !| doc beside code\nend module lb_r2\n",
    "z1_inc_cycle_two.f90": "program lb_p\n  include 'lb_ping.inc'\nend program lb_p\n",
    "lb_ping.inc": "include 'lb_pong.inc'\n",
    "lb_pong.inc": "include 'lb_ping.inc'\n",
}


_LEFT_DIR = []


def _run_project(files: dict) -> tuple[list[str], dict[str, str]]:
    common.import_ford()
    import ford.fortran_project as fp
    import ford.sourceform as sf
    from ford.settings import ProjectSettings

    # (the same directory for every run: a table keyed by path would otherwise differ by the directory name alone)
    if not _LEFT_DIR:
        import atexit
        _LEFT_DIR.append(Path(tempfile.mkdtemp(prefix="c20left")))
        atexit.register(shutil.rmtree, _LEFT_DIR[0], ignore_errors=True)
    d = _LEFT_DIR[0] / "src"
    shutil.rmtree(d, ignore_errors=True)
    d.mkdir()
    try:
        for n, t in files.items():
            (d / n).write_bytes(t) if isinstance(t, bytes) else (d / n).write_text(t)
        sf.namelist = sf.NameSelector()
        buf = io.StringIO()
        with contextlib.redirect_stdout(buf), contextlib.redirect_stderr(buf):
            proj = fp.Project(ProjectSettings(src_dir=[d], preprocess=False))
        return sorted(f.name for f in proj.files), process_state()
    finally:
        shutil.rmtree(d, ignore_errors=True)


def probe_left_behind() -> list[str]:
    reg0, _ = _run_project(VALID)                        # (first run: lazily filled caches are filled)
    reg1, s1 = _run_project(VALID)
    reg2, s2 = _run_project({**VALID, **REJECTED})
    want = sorted(n for n in VALID if n.endswith(".f90"))
    if reg0 != want or reg1 != want:
        raise ValueError(f"left-behind probe: the two valid probe files are not both registered: {reg1}")
    # (a probe file that is registered after all - a tree that accepts it - has left what a registered file
    #  leaves; whether it should have been rejected is the matter of the other tables and of the oracle)
    reg2 = [n for n in reg2 if n not in REJECTED]
    out = sorted(k for k in set(s1) | set(s2) if s1.get(k) != s2.get(k))
    if reg2 != want:
        # (a valid file that is no longer registered is the oracle's matter; here it is named as what it is)
        out.append("project.files:" + ",".join(n for n in want if n not in reg2) + " no longer registered")
    return out


def lean_table(lean_chars, lean_list) -> list[str]:
    probes, late = [], []
    for es in ENUM_PROBES:
        for one_line in (False, True):
            stage, vals = observe_enum(es, one_line)
            label = ", ".join(n if i is None else f"{n} = {i}" for n, i in es) + (" (one line)" if one_line else "")
            if stage == "later":
                late.append(label)
            if not one_line:
                ens = lean_list("⟨" + lean_chars(n) + ", " + ("none" if i is None else "some " + lean_chars(i)) + "⟩" for n, i in es)
                obs = "none" if vals is None else "some " + lean_list(("(" + str(v) + ")") for v in vals)
                probes.append(f"({ens}, {obs})")
            elif (stage, vals) != observe_enum(es, False):
                raise ValueError(f"enum probe: {label}: enumerators on one line and on separate lines are treated differently")
    left = probe_left_behind()
    return [
        "/-- `FortranEnum._cleanup` as observed: enumerators (name, text after `=`) -> `none` when the file's constructor",
        "    raised, else the values recorded for the enumerators without `= value` -/",
        "def enumProbes : List (List (Str × Option Str) × Option (List Int)) :=",
        "  [" + ",\n   ".join(probes) + "]",
        "/-- enum probes on which the constructor returned and `Project.correlate()` raised afterwards -/",
        f"def enumLateRaise : List Str := {lean_list(lean_chars(x) for x in late)}",
        "/-- class- / module-level data of ford.reader, sourceform, fortran_project, utils that differs after `Project()` over",
        "    valid + rejected files from its value after `Project()` over the valid files alone -/",
        f"def leftBehind : List Str := {lean_list(lean_chars(x) for x in left)}",
    ]
