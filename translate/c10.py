"""Translator for C10: regenerates lean/FordModel/Generated/C10.lean from the source
of the implementation under test (ast only; nothing is executed).

Extracted constructs
  symbolTable  : the dict literal iterated in NameSelector.get_name
                 (`for symbol, replacement in {...}.items(): name = name.replace(...)`)
  suffixSep    : the separator literal in `name = name + "~" + str(num)`
  unnamedStem  : the literal assigned when the name is empty
  outDirs      : the directory names created in Documentation.writeout
                 (the list literal that contains "lists" and "src")
  listPages    : `out_page` of every ListPage subclass
  topPages     : `template_path` of IndexPage / SearchPage
  isInterfaceProcedure : the boolean expression returned by the property
                 `FortranProcedure.is_interface_procedure` (which decides whether a procedure
                 borrows `ident`/`get_dir` from its parent interface), as a Lean function of the
                 two facts it may consult: "the parent is a FortranInterface", "parent.generic"
Every extractor raises when its construct is not found (= tie broken).
"""
from __future__ import annotations

import ast
from pathlib import Path

from harness import common


class NotFound(Exception):
    pass


def _lean_str(s: str) -> str:
    out = []
    for ch in s:
        if ch == "\\":
            out.append("\\\\")
        elif ch == '"':
            out.append('\\"')
        elif 32 <= ord(ch) < 127:
            out.append(ch)
        else:
            out.append("\\u{%x}" % ord(ch))
    return '"' + "".join(out) + '"'


def _lean_char(c: str) -> str:
    if c == "'":
        return "'\\''"
    if c == "\\":
        return "'\\\\'"
    if 32 <= ord(c) < 127:
        return f"'{c}'"
    return "'\\u{%x}'" % ord(c)


def _find_class(tree, name):
    for n in ast.walk(tree):
        if isinstance(n, ast.ClassDef) and n.name == name:
            return n
    raise NotFound(f"class {name}")


def _find_func(node, name):
    for n in ast.walk(node):
        if isinstance(n, ast.FunctionDef) and n.name == name:
            return n
    raise NotFound(f"function {name}")


def extract_get_name(repo: Path):
    src = (repo / "ford" / "sourceform.py").read_text()
    tree = ast.parse(src)
    fn = _find_func(_find_class(tree, "NameSelector"), "get_name")
    table = None
    cls = _find_class(tree, "NameSelector")

    def constant_named(name):
        """the value assigned to `name` in the class body or at module level (a hoisted table)"""
        for scope in (cls.body, tree.body):
            for st in scope:
                if isinstance(st, ast.Assign) and any(isinstance(t, ast.Name) and t.id == name for t in st.targets):
                    return st.value
                if isinstance(st, ast.AnnAssign) and isinstance(st.target, ast.Name) and st.target.id == name and st.value:
                    return st.value
        raise NotFound(f"definition of the table `{name}` iterated by the replacement loop")

    def pairs_of(it):
        """(symbol, replacement) pairs, in iteration order, of the loop's iterable: a dict literal's .items(), a
        tuple/list of 2-tuples, or a class-/module-level name bound to one of these"""
        if isinstance(it, ast.Call) and isinstance(it.func, ast.Attribute) and it.func.attr == "items" and not it.args:
            d = it.func.value
            if isinstance(d, (ast.Name, ast.Attribute)):
                d = constant_named(d.id if isinstance(d, ast.Name) else d.attr)
            if isinstance(d, ast.Dict):
                return list(zip(d.keys, d.values))
            return None
        if isinstance(it, (ast.Name, ast.Attribute)):
            it = constant_named(it.id if isinstance(it, ast.Name) else it.attr)
        if isinstance(it, (ast.Tuple, ast.List)) and all(isinstance(e, (ast.Tuple, ast.List)) and len(e.elts) == 2 for e in it.elts):
            return [(e.elts[0], e.elts[1]) for e in it.elts]
        return None

    for n in ast.walk(fn):
        if isinstance(n, ast.For) and (pairs := pairs_of(n.iter)) is not None:
            # the loop body must be the plain `name = name.replace(symbol, replacement)`
            body_ok = (len(n.body) == 1 and isinstance(n.body[0], ast.Assign)
                       and isinstance(n.body[0].value, ast.Call)
                       and isinstance(n.body[0].value.func, ast.Attribute)
                       and n.body[0].value.func.attr == "replace"
                       and isinstance(n.target, ast.Tuple) and len(n.target.elts) == 2
                       and [getattr(a, "id", None) for a in n.body[0].value.args] == [getattr(t, "id", 0) for t in n.target.elts])
            if not body_ok:
                raise NotFound("replacement loop body is not `name = name.replace(symbol, replacement)`")
            table = []
            for k, v in pairs:
                if not (isinstance(k, ast.Constant) and isinstance(k.value, str)
                        and isinstance(v, ast.Constant) and isinstance(v.value, str)):
                    raise NotFound("non-literal entry in the symbol table")
                if len(k.value) != 1:
                    raise NotFound(f"symbol {k.value!r} is not a single character (model handles 1-char symbols)")
                table.append((k.value, v.value))
    if table is None:
        raise NotFound("symbol replacement dict in NameSelector.get_name")
    sep = None
    unnamed = None
    for n in ast.walk(fn):
        # name + "<sep>" + str(num)
        if (isinstance(n, ast.BinOp) and isinstance(n.op, ast.Add) and isinstance(n.left, ast.BinOp)
                and isinstance(n.left.op, ast.Add) and isinstance(n.left.right, ast.Constant)
                and isinstance(n.left.right.value, str) and isinstance(n.right, ast.Call)
                and getattr(n.right.func, "id", None) == "str"):
            sep = n.left.right.value
        # if name == "": name = "<unnamed>"
        if (isinstance(n, ast.If) and isinstance(n.test, ast.Compare)
                and isinstance(n.test.comparators[0], ast.Constant) and n.test.comparators[0].value == ""
                and len(n.body) == 1 and isinstance(n.body[0], ast.Assign)
                and isinstance(n.body[0].value, ast.Constant)):
            unnamed = n.body[0].value.value
    if sep is None or len(sep) != 1:
        raise NotFound(f"suffix separator literal (got {sep!r})")
    if not isinstance(unnamed, str) or unnamed == "":
        raise NotFound("stem for the empty name")
    return table, sep, unnamed


def _bool_expr(n) -> str:
    """Python boolean expression over `isinstance(self.parent, FortranInterface)` and
    `self.parent.generic` -> Lean Bool term over `pI` and `pG`."""
    if isinstance(n, ast.BoolOp) and isinstance(n.op, (ast.And, ast.Or)):
        op = " && " if isinstance(n.op, ast.And) else " || "
        return "(" + op.join(_bool_expr(v) for v in n.values) + ")"
    if isinstance(n, ast.UnaryOp) and isinstance(n.op, ast.Not):
        return "(!" + _bool_expr(n.operand) + ")"
    if isinstance(n, ast.Constant) and isinstance(n.value, bool):
        return "true" if n.value else "false"
    if (isinstance(n, ast.Call) and getattr(n.func, "id", None) == "isinstance" and len(n.args) == 2
            and ast.unparse(n.args[0]) == "self.parent" and ast.unparse(n.args[1]) == "FortranInterface"):
        return "pI"
    if ast.unparse(n) == "self.parent.generic":
        return "pG"
    raise NotFound(f"is_interface_procedure: unmodelled sub-expression `{ast.unparse(n)}`")


def extract_borrow(repo: Path) -> str:
    """The expression returned by `FortranProcedure.is_interface_procedure`, and a check that `ident`
    and `get_dir` of FortranProcedure consult exactly this property before delegating to the parent."""
    src = (repo / "ford" / "sourceform.py").read_text()
    cls = _find_class(ast.parse(src), "FortranProcedure")
    fn = _find_func(cls, "is_interface_procedure")
    body = [b for b in fn.body if not (isinstance(b, ast.Expr) and isinstance(b.value, ast.Constant))]
    if len(body) != 1 or not isinstance(body[0], ast.Return) or body[0].value is None:
        raise NotFound("is_interface_procedure is not a single `return <expr>`")
    expr = _bool_expr(body[0].value)
    for name, deleg in (("ident", "namelist.get_name(self.parent)"), ("get_dir", "'interface'")):
        f = _find_func(cls, name)
        b = [x for x in f.body if not (isinstance(x, ast.Expr) and isinstance(x.value, ast.Constant))]
        ok = (len(b) == 2 and isinstance(b[0], ast.If) and ast.unparse(b[0].test) == "self.is_interface_procedure"
              and len(b[0].body) == 1 and isinstance(b[0].body[0], ast.Return)
              and ast.unparse(b[0].body[0].value) == deleg and not b[0].orelse
              and isinstance(b[1], ast.Return) and ast.unparse(b[1].value) == f"super().{name}" + ("()" if name == "get_dir" else ""))
        if not ok:
            raise NotFound(f"FortranProcedure.{name} is not `if self.is_interface_procedure: return {deleg}` + super()")
    return expr


def extract_output(repo: Path):
    src = (repo / "ford" / "output.py").read_text()
    tree = ast.parse(src)
    wo = _find_func(_find_class(tree, "Documentation"), "writeout")
    dirs = None
    for n in ast.walk(wo):
        if isinstance(n, ast.For) and isinstance(n.iter, ast.List):
            vals = [e.value for e in n.iter.elts if isinstance(e, ast.Constant)]
            if "lists" in vals and "src" in vals:
                dirs = vals
    if dirs is None:
        raise NotFound("directory list in Documentation.writeout")
    # class table: name -> (bases, {attr: literal})
    classes = {}
    for n in tree.body:
        if isinstance(n, ast.ClassDef):
            attrs = {}
            for b in n.body:
                if isinstance(b, ast.Assign) and isinstance(b.value, ast.Constant) and isinstance(b.targets[0], ast.Name):
                    attrs[b.targets[0].id] = b.value.value
            classes[n.name] = ([getattr(b, "id", None) for b in n.bases], attrs)
    list_pages = sorted(a["out_page"] for c, (bases, a) in classes.items() if "ListPage" in bases and "out_page" in a)
    top_pages = sorted(a["template_path"] for c, (bases, a) in classes.items() if "ListTopPage" in bases and "template_path" in a)
    if not list_pages or not top_pages:
        raise NotFound("ListPage.out_page / ListTopPage.template_path literals")
    return dirs, list_pages, top_pages


def render(repo: Path) -> str:
    table, sep, unnamed = extract_get_name(repo)
    dirs, list_pages, top_pages = extract_output(repo)
    borrow = extract_borrow(repo)
    L = ["/- GENERATED by translate/c10.py from ford/sourceform.py and ford/output.py - do not edit -/",
         "import FordModel.Basic.Chars", "namespace Ford.Generated.C10", "open Ford", "",
         "/-- the dict literal iterated in `NameSelector.get_name` (symbol, replacement), in source order -/",
         "def symbolTable : List (Char × Str) :=",
         "  [" + ", ".join(f"({_lean_char(k)}, {_lean_str(v)}.toList)" for k, v in table) + "]", "",
         "/-- separator of the `~N` suffix -/",
         f"def suffixSep : Char := {_lean_char(sep)}", "",
         "/-- stem of an entity whose name is empty -/",
         f"def unnamedStem : Str := {_lean_str(unnamed)}.toList", "",
         "/-- directories created by `Documentation.writeout` -/",
         "def outDirs : List Str :=",
         "  [" + ", ".join(f"{_lean_str(d)}.toList" for d in dirs) + "]", "",
         "/-- `out_page` of the list pages (written to `lists/`) -/",
         "def listPages : List Str :=",
         "  [" + ", ".join(f"{_lean_str(d)}.toList" for d in list_pages) + "]", "",
         "/-- top-level pages -/",
         "def topPages : List Str :=",
         "  [" + ", ".join(f"{_lean_str(d)}.toList" for d in top_pages) + "]", "",
         "/-- `FortranProcedure.is_interface_procedure` as a function of `pI` = \"the parent is a",
         "    FortranInterface\" and `pG` = `parent.generic` (only meaningful when `pI`) -/",
         "def isInterfaceProcedure (pI pG : Bool) : Bool :=",
         "  " + borrow, "",
         "end Ford.Generated.C10", ""]
    return "\n".join(L)


def translate():
    text = render(common.REPO)
    common.write_if_changed(common.LEAN / "FordModel" / "Generated" / "C10.lean", text)


if __name__ == "__main__":
    translate()
    print(render(common.REPO))
